/-
inverseBiPSIv2, part 2: counting facts for ARBITRARY source bytes.
* `posOf i`: the row `freqs[src[i]]++` hands to source index `i` (level-1 counting sort = LF);
  the indexes of one symbol get consecutive rows (`idxs_pos`).
* the bigram entries scattered by the third loop and their flat keys `x*256 + y`; the number of
  entries with a key equals the count the first loop left in `buckets` (`cntK_entries`).
* the grand total of the counts is `n - 1` (`total_cnt`).
-/
import Kanzi.Proofs.BWTBi1

namespace Kanzi.BWT

theorem dec_beq (b y : Nat) : decide (b = y) = (b == y) := by
  by_cases h : b = y
  · subst h; simp
  · simp [h]

theorem psum_succ (f : Nat → Nat) (c : Nat) : psum f (c + 1) = psum f c + f c := rfl

theorem psum_zero_fun (m : Nat) : psum (fun _ : Nat => 0) m = 0 := by
  induction m with
  | zero => rfl
  | succ m ih => rw [psum_succ, ih]

/-! ### level 1: rows handed out by `freqs[c]++` -/

/-- occurrences of `y` among the first `i` source bytes -/
def seen (src : Array Nat) (i y : Nat) : Nat := ((src.toList.take i).filter (fun b => b = y)).length

/-- the value `p := freqs[c]` read at source index `i` -/
def posOf (src : Array Nat) (i : Nat) : Nat := fC src (rd src i) + seen src i (rd src i)

theorem seen_succ (src : Array Nat) (i y : Nat) (hi : i < src.size) :
    seen src (i + 1) y = seen src i y + (if rd src i = y then 1 else 0) := by
  unfold seen
  have hi' : i < src.toList.length := by simpa using hi
  rw [List.take_add_one, List.filter_append, List.length_append, List.getElem?_eq_getElem hi']
  simp only [Option.toList_some, List.filter_cons, List.filter_nil, Array.getElem_toList, rd_eq_getElem hi]
  split <;> simp_all

theorem seen_le (src : Array Nat) (i y : Nat) (hi : i ≤ src.size) : seen src i y ≤ src.toList.count y := by
  unfold seen
  rw [List.count_eq_length_filter]
  have : (src.toList.take i).filter (fun b => decide (b = y)) = (src.toList.take i).filter (fun b => b == y) := by
    apply List.filter_congr; intro b _; exact dec_beq b y
  rw [this]
  exact (List.Sublist.filter _ (List.take_sublist i _)).length_le

theorem seen_lt (src : Array Nat) (i : Nat) (hi : i < src.size) :
    seen src i (rd src i) < src.toList.count (rd src i) := by
  have h1 := seen_succ src i (rd src i) hi
  have h2 := seen_le src (i + 1) (rd src i) (by omega)
  simp at h1; omega

theorem posOf_bounds (src : Array Nat) (i : Nat) (hi : i < src.size) :
    1 ≤ posOf src i ∧ posOf src i ≤ src.size := by
  have h1 := seen_lt src i hi
  have h2 := fC_le src (rd src i)
  have h3 := fC_pos src (rd src i)
  unfold posOf; omega

/-- the indexes below `m` holding symbol `y` get the rows `fC y, fC y + 1, ...` in order -/
theorem idxs_pos (src : Array Nat) (y m : Nat) (hm : m ≤ src.size) :
    ((List.range m).filter (fun i => rd src i = y)).map (posOf src)
      = List.range' (fC src y) (seen src m y) := by
  induction m with
  | zero => simp [seen]
  | succ m ih =>
    rw [List.range_succ, List.filter_append, List.map_append, ih (by omega), seen_succ src m y (by omega)]
    by_cases h : rd src m = y
    · simp only [List.filter_cons, h, decide_true, ite_true, List.filter_nil, List.map_cons, List.map_nil]
      rw [← List.range'_append_1]
      simp [posOf, h]
    · simp [List.filter_cons, h]

theorem seen_full (src : Array Nat) (y : Nat) : seen src src.size y = src.toList.count y := by
  unfold seen
  rw [List.count_eq_length_filter, List.take_of_length_le (by simp)]
  congr 1

/-! ### level 2: bigram entries -/

/-- flat key of the bigram `x y` -/
abbrev flat (x y : Nat) : Nat := x * 256 + y

/-- flat key of the entry of source index `i` (`x` = BWT symbol of its row, `y` = its own symbol) -/
def keyOf (src : Array Nat) (p0 i : Nat) : Nat := flat (Lrow src p0 (posOf src i)) (rd src i)

/-- source indexes that produce an entry (their row is not the end-marker row) -/
def liveIdx (src : Array Nat) (p0 : Nat) : List Nat := (List.range src.size).filter (fun i => posOf src i ≠ p0)

/-- count left by the first loop for the flat key `kk` -/
def cntK (src : Array Nat) (p0 kk : Nat) : Nat := cntRow src p0 (kk % 256) (kk / 256)

theorem rd_lt (src : Array Nat) (hb : ∀ b ∈ src.toList, b < 256) (j : Nat) : rd src j < 256 := by
  by_cases hj : j < src.size
  · rw [← rd_eq_getElem hj]; exact hb _ (by simp)
  · rw [rd_of_size_le (by omega)]; decide

theorem Lrow_lt (src : Array Nat) (hb : ∀ b ∈ src.toList, b < 256) (p0 r : Nat) : Lrow src p0 r < 256 := by
  unfold Lrow; split <;> exact rd_lt src hb _

theorem flat_inj {x y x' y' : Nat} (hy : y < 256) (hy' : y' < 256) : flat x y = flat x' y' ↔ x = x' ∧ y = y' := by
  unfold flat; omega

theorem cntIf_eq_filter_range' (P : Nat → Bool) (a k : Nat) : cntIf P a k = ((List.range' a k).filter P).length := rfl

/-- CONSISTENCY of the two passes: the number of scattered entries with key `x y` is the count the
first loop computed for that bigram. -/
theorem cntK_entries (src : Array Nat) (hb : ∀ b ∈ src.toList, b < 256) (p0 x y : Nat) (hx : x < 256) (hy : y < 256) :
    (((liveIdx src p0).map (keyOf src p0)).filter (fun k => k = flat x y)).length = cntRow src p0 y x := by
  -- entries with key (x, y) = live indexes with symbol y whose row has BWT symbol x
  have h1 : ((liveIdx src p0).map (keyOf src p0)).filter (fun k => decide (k = flat x y))
      = (((List.range src.size).filter (fun i => rd src i = y)).filter
          (fun i => posOf src i ≠ p0 && Lrow src p0 (posOf src i) = x)).map (keyOf src p0) := by
    rw [List.filter_map, liveIdx, List.filter_filter, List.filter_filter]
    congr 1
    apply List.filter_congr
    intro i _
    simp only [Function.comp, keyOf]
    have := flat_inj (x := Lrow src p0 (posOf src i)) (x' := x) (rd_lt src hb i) hy
    by_cases h2 : rd src i = y <;> by_cases h3 : Lrow src p0 (posOf src i) = x <;>
      by_cases h4 : posOf src i = p0 <;> simp only [this, h2, h3, h4] <;> simp <;> omega
  rw [h1, List.length_map]
  have h2 : (((List.range src.size).filter (fun i => rd src i = y)).filter
      (fun i => posOf src i ≠ p0 && Lrow src p0 (posOf src i) = x)).length
      = ((((List.range src.size).filter (fun i => rd src i = y)).map (posOf src)).filter
          (fun r => r ≠ p0 && Lrow src p0 r = x)).length := by
    rw [List.filter_map, List.length_map]; rfl
  rw [h2, idxs_pos src y src.size (Nat.le_refl _), seen_full]
  rfl

theorem keyOf_lt (src : Array Nat) (hb : ∀ b ∈ src.toList, b < 256) (p0 i : Nat) : keyOf src p0 i < 65536 := by
  have h1 := Lrow_lt src hb p0 (posOf src i)
  have h2 := rd_lt src hb i
  unfold keyOf flat; omega

theorem cntK_eq (src : Array Nat) (hb : ∀ b ∈ src.toList, b < 256) (p0 kk : Nat) (hk : kk < 65536) :
    cntK src p0 kk = (((liveIdx src p0).map (keyOf src p0)).filter (fun k => k = kk)).length := by
  have h := cntK_entries src hb p0 (kk / 256) (kk % 256) (by omega) (Nat.mod_lt _ (by decide))
  have e : flat (kk / 256) (kk % 256) = kk := by unfold flat; omega
  rw [e] at h
  rw [cntK, ← h]

/-- prefix sums of the counts = number of entries with a smaller key -/
theorem psum_cntK (src : Array Nat) (hb : ∀ b ∈ src.toList, b < 256) (p0 kk : Nat) (hk : kk ≤ 65536) :
    psum (cntK src p0) kk = (((liveIdx src p0).map (keyOf src p0)).filter (fun k => k < kk)).length := by
  rw [← psum_count]
  have : ∀ m, m ≤ 65536 → psum (cntK src p0) m
      = psum (fun c => ((liveIdx src p0).map (keyOf src p0)).count c) m := by
    intro m hm
    induction m with
    | zero => rfl
    | succ m ih =>
      rw [psum_succ, psum_succ, ih (by omega), cntK_eq src hb p0 m (by omega), List.count_eq_length_filter]
      congr 2
  exact this kk hk

/-! ### the grand total -/

theorem cntIf_ne (p0 a k : Nat) (h1 : a ≤ p0) (h2 : p0 < a + k) : cntIf (fun r => r ≠ p0) a k = k - 1 := by
  have e : k = (p0 - a) + (1 + (a + k - 1 - p0)) := by omega
  rw [e, cntIf_add, cntIf_add]
  have e1 : cntIf (fun r => decide (r ≠ p0)) a (p0 - a) = p0 - a := by
    have : cntIf (fun r => decide (r ≠ p0)) a (p0 - a) = cntIf (fun _ => true) a (p0 - a) := by
      apply cntIf_congr; intro r h3 h4
      have : r ≠ p0 := by omega
      simp [this]
    rw [this]; simp [cntIf, List.filter_eq_self.2]
  have e2 : cntIf (fun r => decide (r ≠ p0)) (a + (p0 - a)) 1 = 0 := by
    have : a + (p0 - a) = p0 := by omega
    rw [this, cntIf_succ]; simp [cntIf_zero]
  have e3 : cntIf (fun r => decide (r ≠ p0)) (a + (p0 - a) + 1) (a + k - 1 - p0) = a + k - 1 - p0 := by
    have : cntIf (fun r => decide (r ≠ p0)) (a + (p0 - a) + 1) (a + k - 1 - p0)
        = cntIf (fun _ => true) (a + (p0 - a) + 1) (a + k - 1 - p0) := by
      apply cntIf_congr; intro r h3 h4
      have : r ≠ p0 := by omega
      simp [this]
    rw [this]; simp [cntIf, List.filter_eq_self.2]
  rw [e1, e2, e3]; omega

theorem psum_add_fun (f g : Nat → Nat) (n : Nat) : psum (fun x => f x + g x) n = psum f n + psum g n := by
  induction n with
  | zero => rfl
  | succ n ih => rw [psum_succ, psum_succ, psum_succ, ih]; omega

theorem psum_swap (f : Nat → Nat → Nat) (n m : Nat) :
    psum (fun x => psum (f x) m) n = psum (fun y => psum (fun x => f x y) n) m := by
  induction n with
  | zero =>
    show 0 = psum (fun _ : Nat => 0) m
    rw [psum_zero_fun]
  | succ n ih =>
    rw [psum_succ, ih, ← psum_add_fun]
    rfl

theorem psum_congr (f g : Nat → Nat) (n : Nat) (h : ∀ x, x < n → f x = g x) : psum f n = psum g n := by
  induction n with
  | zero => rfl
  | succ n ih => rw [psum_succ, psum_succ, ih (fun x hx => h x (by omega)), h n (by omega)]

/-- flat prefix sum at a multiple of 256 = double sum -/
theorem psum_flat (g : Nat → Nat → Nat) (n : Nat) :
    psum (fun kk => g (kk / 256) (kk % 256)) (n * 256) = psum (fun x => psum (g x) 256) n := by
  have inner : ∀ x d, d ≤ 256 →
      psum (fun kk => g (kk / 256) (kk % 256)) (x * 256 + d) = psum (fun kk => g (kk / 256) (kk % 256)) (x * 256) + psum (g x) d := by
    intro x d hd
    induction d with
    | zero => rw [Nat.add_zero]; exact (Nat.add_zero _).symm
    | succ d ih =>
      have e : x * 256 + (d + 1) = (x * 256 + d) + 1 := (Nat.add_assoc _ _ _).symm
      rw [e, psum_succ _ (x * 256 + d), ih (by omega), psum_succ _ d]
      have e1 : (x * 256 + d) / 256 = x := by omega
      have e2 : (x * 256 + d) % 256 = d := by omega
      rw [e1, e2]; omega
  induction n with
  | zero => rfl
  | succ n ih =>
    rw [succ_mul256, inner n 256 (Nat.le_refl _), ih, psum_succ _ n]

/-- summing the count of `L r = x` over all symbols `x` forgets the condition -/
theorem psum_cntIf_sym (Q : Nat → Bool) (L : Nat → Nat) (hL : ∀ r, L r < 256) (a k : Nat) :
    psum (fun x => cntIf (fun r => Q r && L r = x) a k) 256 = cntIf Q a k := by
  induction k generalizing a with
  | zero =>
    have : (fun x => cntIf (fun r => Q r && decide (L r = x)) a 0) = fun _ => 0 := by funext x; rfl
    rw [this, cntIf_zero]; exact psum_zero_fun 256
  | succ k ih =>
    have : psum (fun x => cntIf (fun r => Q r && decide (L r = x)) a (k + 1)) 256
        = psum (fun x => (if (Q a && decide (L a = x)) = true then 1 else 0)) 256
          + psum (fun x => cntIf (fun r => Q r && decide (L r = x)) (a + 1) k) 256 := by
      rw [← psum_add_fun]
      apply psum_congr; intro x _; exact cntIf_succ _ a k
    rw [this, ih, cntIf_succ Q a k]
    -- exactly one x matches
    have one : ∀ m, psum (fun x => if (decide (L a = x)) = true then 1 else 0) m = if L a < m then 1 else 0 := by
      intro m
      induction m with
      | zero => rfl
      | succ m ih =>
        rw [psum_succ, ih]
        by_cases h1 : L a < m
        · have : ¬ L a = m := by omega
          have h2 : L a < m + 1 := by omega
          simp [h1, this, h2]
        · by_cases h2 : L a = m
          · simp [h2]
          · have : ¬ L a < m + 1 := by omega
            simp [h1, h2, this]
    have hone : psum (fun x => (if (Q a && decide (L a = x)) = true then 1 else 0)) 256
        = if Q a = true then 1 else 0 := by
      cases hq : Q a with
      | false =>
        simp only [Bool.false_and, Bool.false_eq_true, ite_false]
        exact psum_zero_fun 256
      | true =>
        simp only [Bool.true_and, ite_true]
        rw [one 256, if_pos (hL a)]
    rw [hone]

theorem psum_cntIf_telescope (src : Array Nat) (Q : Nat → Bool) (c : Nat) :
    psum (fun y => cntIf Q (fC src y) (src.toList.count y)) c = cntIf Q (fC src 0) (fC src c - fC src 0) := by
  induction c with
  | zero => simp only [Nat.sub_self, cntIf_zero]; rfl
  | succ c ih =>
    have hmono : fC src 0 ≤ fC src c := by
      unfold fC
      have : src.toList.filter (fun x => decide (x < 0)) = [] := List.filter_eq_nil_iff.2 (by simp)
      rw [this]; simp
    rw [psum_succ, ih, fC_succ]
    have e : fC src c + src.toList.count c - fC src 0 = (fC src c - fC src 0) + src.toList.count c := by omega
    rw [e, cntIf_add]
    have e2 : fC src 0 + (fC src c - fC src 0) = fC src c := by omega
    rw [e2]

theorem fC_zero (src : Array Nat) : fC src 0 = 1 := by
  unfold fC
  have : src.toList.filter (fun x => decide (x < 0)) = [] := List.filter_eq_nil_iff.2 (by simp)
  rw [this]; rfl

theorem fC_256 (src : Array Nat) (hb : ∀ b ∈ src.toList, b < 256) : fC src 256 = src.size + 1 := by
  unfold fC
  rw [List.filter_eq_self.2 (by intro b hb'; simpa using hb b hb')]
  simp; omega

/-- THE TOTAL: with `1 <= pIdx <= n` the first loop counts exactly `n - 1` bigrams. -/
theorem total_cnt (src : Array Nat) (hb : ∀ b ∈ src.toList, b < 256) (p0 : Nat) (hp : 1 ≤ p0 ∧ p0 ≤ src.size) :
    psum (cntK src p0) 65536 = src.size - 1 := by
  have e : (65536 : Nat) = 256 * 256 := by decide
  have h1 : psum (cntK src p0) 65536 = psum (fun x => psum (fun y => cntRow src p0 y x) 256) 256 := by
    rw [e]
    exact psum_flat (fun x y => cntRow src p0 y x) 256
  rw [h1, psum_swap]
  have h2 : ∀ y, y < 256 → psum (fun x => cntRow src p0 y x) 256
      = cntIf (fun r => r ≠ p0) (fC src y) (src.toList.count y) := by
    intro y _
    exact psum_cntIf_sym (fun r => r ≠ p0) (Lrow src p0) (Lrow_lt src hb p0) _ _
  rw [psum_congr _ _ 256 h2, psum_cntIf_telescope, fC_zero, fC_256 src hb]
  have : src.size + 1 - 1 = src.size := by omega
  rw [this, cntIf_ne p0 1 src.size hp.1 (by omega)]

end Kanzi.BWT
