/-
Proofs for the `utf` slice, part 9: the statements used by `Kanzi/Properties/C13_utf.lean`.
-/
import Kanzi.Proofs.UTFRound

namespace Kanzi.UTF
open Kanzi.RLT

theorem aliasBytes_lt (k : Nat) (h : k < 32768) : ∀ y ∈ aliasBytes k, y < 256 := by
  intro y hy
  unfold aliasBytes at hy
  split at hy
  · simp at hy; omega
  · simp at hy; omega

theorem mapBytes_lt (rk : List (Nat × Nat)) : ∀ y ∈ mapBytes rk, y < 256 := by
  intro y hy
  unfold mapBytes at hy
  rcases List.mem_flatMap.mp hy with ⟨p, _, hp⟩
  simp at hp
  omega

theorem encoded_lt (src : List Nat) (start iEnd : Nat) (ts rk : List (Nat × Nat)) (hb : ∀ x ∈ src, x < 256)
    (h : FwdOK src start ts iEnd rk) : ∀ y ∈ encoded src start ts iEnd rk, y < 256 := by
  have hbd := h.toks.bounds
  have := h.start_le
  have := h.len
  intro y hy
  unfold encoded at hy
  simp only [List.mem_cons, List.mem_append] at hy
  rcases hy with rfl | rfl | rfl | rfl | hy | hy | hy | hy
  · omega
  · omega
  · omega
  · omega
  · exact mapBytes_lt rk y hy
  · exact hb y (List.mem_of_mem_take hy)
  · unfold aliasStream at hy
    rcases List.mem_flatMap.mp hy with ⟨t, ht, hyt⟩
    refine aliasBytes_lt _ ?_ y hyt
    have := List.idxOf_lt_length_iff.mpr (h.tok_mem t ht)
    rw [List.length_map] at this
    have := h.n_lt
    unfold kofOf; omega
  · exact hb y (List.mem_of_mem_drop hy)

/-- the header written by Forward never makes Inverse read past its input -/
theorem encoded_not_overlap (src : List Nat) (start iEnd : Nat) (ts rk : List (Nat × Nat))
    (h : FwdOK src start ts iEnd rk) : ¬ invOverlap (encoded src start ts iEnd rk) := by
  have hbd := h.toks.bounds
  have := h.start_le
  have := h.len
  have hn := h.n_lt
  have hmb := mapBytes_length rk
  have hhead : (src.take start).length = start := by rw [List.length_take]; omega
  have htail : (src.drop iEnd).length = src.length - iEnd := List.length_drop
  have hel : (encoded src start ts iEnd rk).length =
      4 + 3 * rk.length + start + (aliasStream (kofOf rk) ts).length + (src.length - iEnd) := by
    unfold encoded
    simp only [List.length_append, List.length_cons, hmb, hhead, htail]; omega
  unfold invOverlap
  rw [hel]
  have g0 : (encoded src start ts iEnd rk).getD 0 0 = start := rfl
  have g1 : (encoded src start ts iEnd rk).getD 1 0 = iEnd - (src.length - 4) := rfl
  have g2 : (encoded src start ts iEnd rk).getD 2 0 = (rk.length >>> 8) % 256 := rfl
  have g3 : (encoded src start ts iEnd rk).getD 3 0 = rk.length % 256 := rfl
  rw [g0, g1, g2, g3, nsplit _ hn, and_03, and_03]
  omega

/-- C13 for the UTF codec, all parts: size bound, strict shrinking, byte range, round trip -/
theorem utf_roundtrip (dt : Nat) (b t : List Nat) (dstLen : Nat) (hb : ∀ x ∈ b, x < 256)
    (hdst : utfMaxEncodedLen b.length ≤ dstLen) (h : utfForward dt b dstLen = .ok t) :
    t.length ≤ utfMaxEncodedLen b.length ∧ (b ≠ [] → t.length < b.length) ∧ (∀ y ∈ t, y < 256) ∧
    (∀ n, b.length ≤ n → utfInverse false t n = .ok b) ∧
    (∀ (v3 : Bool) (n : Nat) (e : String), utfInverse v3 t n ≠ .fault e) := by
  rcases utfForward_spec dt b dstLen hb hdst with ⟨hnil, h0⟩ | ⟨e, he⟩ | ⟨start, ts, iEnd, rk, hok, he⟩
  · rw [h0] at h; cases h; subst hnil
    refine ⟨by simp [utfMaxEncodedLen], fun h => absurd rfl h, by simp, fun n _ => by simp [utfInverse], ?_⟩
    intro v3 n e; simp [utfInverse]
  · rw [he] at h; cases h
  · rw [he] at h; cases h
    have hs := hok.short
    refine ⟨by unfold utfMaxEncodedLen; omega, fun _ => by omega, encoded_lt b start iEnd ts rk hb hok,
      fun n hn => utfInverse_encoded b start iEnd ts rk hb hok n hn, ?_⟩
    intro v3 n e hf
    exact encoded_not_overlap b start iEnd ts rk hok
      (utfInverse_fault v3 _ n e (encoded_lt b start iEnd ts rk hb hok) hf)

theorem utfForward_ne_fault (dt : Nat) (b : List Nat) (dstLen : Nat) (hb : ∀ x ∈ b, x < 256)
    (hdst : utfMaxEncodedLen b.length ≤ dstLen) (e : String) : utfForward dt b dstLen ≠ .fault e := by
  rcases utfForward_spec dt b dstLen hb hdst with ⟨_, h0⟩ | ⟨e', he⟩ | ⟨start, ts, iEnd, rk, _, he⟩
  · rw [h0]; intro h; cases h
  · rw [he]; intro h; cases h
  · rw [he]; intro h; cases h

/-- Forward never accepts a block below the minimum size, nor a foreign data type -/
theorem utfForward_ok_len (dt : Nat) (b t : List Nat) (dstLen : Nat) (h : utfForward dt b dstLen = .ok t) :
    (b = [] ∨ dstLen = 0) ∨ (MIN_BLOCKSIZE ≤ b.length ∧ (dt = DT_UNDEFINED ∨ dt = DT_UTF8)) := by
  rw [utfForward_eq] at h
  by_cases h0 : b.length = 0 ∨ dstLen = 0
  · left
    rcases h0 with h0 | h0
    · exact Or.inl (List.length_eq_zero_iff.mp h0)
    · exact Or.inr h0
  rw [if_neg h0] at h
  by_cases h1 : b.length < MIN_BLOCKSIZE
  · rw [if_pos h1] at h; cases h
  rw [if_neg h1] at h
  split at h
  · cases h
  · by_cases h2 : dt ≠ DT_UNDEFINED ∧ dt ≠ DT_UTF8
    · rw [if_pos h2] at h; cases h
    · right; refine ⟨by omega, ?_⟩
      by_cases h3 : dt = DT_UNDEFINED
      · exact Or.inl h3
      · by_cases h4 : dt = DT_UTF8
        · exact Or.inr h4
        · exact absurd ⟨h3, h4⟩ h2

end Kanzi.UTF
