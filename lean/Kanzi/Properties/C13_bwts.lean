/-
C13 for the bijective Burrows–Wheeler transform `transform.BWTS` (v2/transform/BWTS.go, "BWTS",
Gil–Scott "BWT Scottified") — property theorems only.
Model: `Kanzi/Model/BWTS.lean` (tied to /repo by the `bwts` correspondence stream); proofs:
`Kanzi/Proofs/BWTSInv.lean` (array level of `Inverse`), `BWTSLex.lean` (Lyndon words, Chen–Fox–Lyndon),
`BWTSOmega.lean` / `BWTSRot.lean` (the order `u^ω < v^ω`), `BWTSSort.lean` (LF mapping on the sorted
rotations), `BWTSCycle.lean` (its cycles), `BWTSMatrix.lean`, `BWTSMain.lean` (the cycles in the order
of the loops), `BWTSThm.lean`, `BWTSSA.lean` (the suffix array specification).

Conventions: a block is a `List Nat` of byte values (hypothesis `∀ x ∈ b, x < 256`); the last argument
of `bwtsInverseFill fill` is `len(dst)` of the Go call, `fill` the value of every destination byte
before the call; `.ok t` is `dst[0:written]` with a nil error, `.err` a non-nil error, `.fault` a Go
panic (index out of range).  `maxBlockSize = _BWTS_MAX_BLOCK_SIZE = 2^30`.

WHAT IS PROVED, AND ABOUT WHAT.  The theorems are about
  * `bwtsSpec`, the textbook DEFINITION of the transform (Lyndon factorisation, all rotations of the
    factors sorted by `u^ω ≤ v^ω`, last letters), and
  * `bwtsInverseFill`, the statement-by-statement MODEL of `BWTS.Inverse`.
`BWTS.Forward` is implemented on top of DivSufSort with a repair procedure for the suffix array
(`moveLyndonWordHead`); its model `bwtsForwardFill` (naive suffix array + the modelled repair loops) is
NOT proved equal to `bwtsSpec`: that equality, and `real Forward = bwtsForwardFill`, `real Forward =
bwtsSpec`, `real Inverse = bwtsInverseFill`, are checked by the `bwts` stream (0 differences; ops `s`
and `c` compare the real Forward with `bwtsSpec` directly; exhaustive over all strings of length ≤ 8 on
three letters and ≤ 12 on two letters, and on blocks up to 256 KiB).  So for C13:
  "output fits in MaxEncodedLen"            `C13_bwts_len` (on the definition) + stream oracle (real code)
  "Inverse restores the block exactly"      `C13_bwts_inverse`: model Inverse ∘ definition = id, all blocks
  "neither direction ever faults"           `C13_bwts_total` for Inverse on EVERY byte string (proved);
                                            for Forward: stream oracle only (the model has explicit
                                            faults at every slice access and none was ever reached).
-/
import Kanzi.Model.BWTS
import Kanzi.Proofs.BWTSThm
import Kanzi.Proofs.BWTSSA

namespace Kanzi.C13
open Kanzi.BWTS

/-! ## the definition is well-founded: orders and factorisation -/

/-- `lexLt` is the lexicographic order `<` of core Lean on `List Nat` (a proper prefix is smaller). -/
theorem C13_bwts_lex (u v : List Nat) : lexLt u v = true ↔ u < v := lexLt_iff_lt u v

/-- `omegaLt u v` decides `u^ω < v^ω`: the infinite words `pw u i = u[i mod |u|]` and `pw v` differ
somewhere, and at the first difference `u^ω` has the smaller letter. -/
theorem C13_bwts_omega (u v : List Nat) (hu : u ≠ []) (hv : v ≠ []) :
    omegaLt u v = true ↔ ∃ k, (∀ i, i < k → pw u i = pw v i) ∧ pw u k < pw v k :=
  omegaLt_iff u v hu hv

/-- the executable Lyndon test is the definition: non-empty and strictly smaller than every proper
non-empty suffix. -/
theorem C13_bwts_isLyndon (w : List Nat) : isLyndon w = true ↔ Lyndon w := isLyndon_iff w

/-- C13_bwts_lyndon (Chen–Fox–Lyndon; Duval): `lyndonFactors s = [w1, …, wk]` is a factorisation of
`s` (`w1 ++ … ++ wk = s`) into Lyndon words with `w1 ≥ w2 ≥ … ≥ wk` (no earlier factor is `lexLt` a
later one), and it is the ONLY such factorisation. -/
theorem C13_bwts_lyndon (s : List Nat) :
    ((lyndonFactors s).flatten = s ∧ (∀ w ∈ lyndonFactors s, Lyndon w) ∧
      (lyndonFactors s).Pairwise (fun a b => lexLt a b = false)) ∧
    ∀ fs : List (List Nat), fs.flatten = s → (∀ w ∈ fs, Lyndon w) →
      fs.Pairwise (fun a b => lexLt a b = false) → fs = lyndonFactors s :=
  ⟨lyndonFactors_spec s, fun fs h1 h2 h3 => lyndonFactors_unique s fs ⟨h1, h2, h3⟩⟩

/-- the rows of the matrix are exactly the rotations of the Lyndon factors (as a multiset), sorted
by `u^ω ≤ v^ω`; two rows with the same `^ω` are equal, so ties do not influence the output. -/
theorem C13_bwts_matrix (s : List Nat) :
    (bwtsMatrix s).Perm ((lyndonFactors s).flatMap rotations) ∧
    (bwtsMatrix s).Pairwise (fun a b => SeqLe (pw a) (pw b)) ∧
    ∀ x ∈ bwtsMatrix s, ∀ y ∈ bwtsMatrix s, SeqEq (pw x) (pw y) → x = y := by
  have h := bwtsMatrix_sortedRots s
  exact ⟨bwtsMatrix_perm s, h.sorted, fun x hx y hy e => rotL_antisymm (h.rotl x hx) (h.rotl y hy) e⟩

/-- the suffix array handed to the forward model (in place of DivSufSort, which is not modelled) is
the list of all start positions, the suffixes in strictly increasing lexicographic order. -/
theorem C13_bwts_suffixArray (s : List Nat) :
    (suffixArray s).Perm (List.range s.length) ∧
      (suffixArray s).Pairwise (fun i j => lexLt (s.drop i) (s.drop j) = true) :=
  ⟨suffixArray_perm s, suffixArray_sorted s⟩

/-! ## length -/

/-- C13_bwts_len: the transform has no header: the output of the definition has exactly the length
of the block, which is `MaxEncodedLen`; its letters are letters of the block (so bytes stay bytes). -/
theorem C13_bwts_len (s : List Nat) :
    (bwtsSpec s).length = s.length ∧ (bwtsSpec s).length ≤ maxEncodedLen s.length ∧
      ∀ x ∈ bwtsSpec s, x ∈ s :=
  ⟨bwtsSpec_length s, by rw [bwtsSpec_length]; exact Nat.le_refl _, fun _ h => mem_bwtsSpec h⟩

/-! ## Inverse -/

/-- C13_bwts_total: the model of `BWTS.Inverse` NEVER faults: on any byte string whatsoever and any
destination size.  With a destination at least as long as the input (and an input of at most 2^30
bytes — longer ones are rejected with an error) it succeeds and writes exactly `len` bytes, all of
them bytes, whatever the destination held before.  (Every byte string is a BWTS image.) -/
theorem C13_bwts_total (fill : Nat) (t : List Nat) (d : Nat) (hb : ∀ x ∈ t, x < 256) :
    bwtsInverseFill fill t d ≠ .fault ∧
      (t.length ≤ maxBlockSize → t.length ≤ d →
        ∃ s, bwtsInverseFill fill t d = .ok s ∧ s.length = t.length ∧ ∀ x ∈ s, x < 256) := by
  refine ⟨bwtsInverse_total fill t d hb, fun hmax hd => ?_⟩
  have h := bwtsInverseFill_eq fill t d hb hmax hd
  exact ⟨decode t, h.1, h.2, decode_bytes hb⟩

/-- C13_bwts_inverse (Gil–Scott; Kufleitner): for EVERY block `s` (bytes, at most 2^30 of them) the
model of `BWTS.Inverse`, run on the transform `bwtsSpec s` into any destination of at least the
original length, returns exactly `s`. -/
theorem C13_bwts_inverse (fill : Nat) (s : List Nat) (d : Nat) (hb : ∀ x ∈ s, x < 256)
    (hmax : s.length ≤ maxBlockSize) (hd : s.length ≤ d) :
    bwtsInverseFill fill (bwtsSpec s) d = .ok s :=
  bwtsInverse_bwtsSpec fill s d hb hmax hd

/-- C13_bwts_bijective: the transform is a bijection on the byte strings of each length: what the
model of `BWTS.Inverse` returns on an ARBITRARY byte string `t` is a block whose transform is `t`. -/
theorem C13_bwts_bijective (fill : Nat) (t : List Nat) (d : Nat) (hb : ∀ x ∈ t, x < 256)
    (hmax : t.length ≤ maxBlockSize) (hd : t.length ≤ d) :
    ∃ s, bwtsInverseFill fill t d = .ok s ∧ bwtsSpec s = t :=
  ⟨decode t, (bwtsInverseFill_eq fill t d hb hmax hd).1, bwtsSpec_decode t hb⟩

/-- the two directions as pure functions (`decode` = the function computed by the loops of
`BWTS.Inverse`, see `C13_bwts_total`): mutually inverse. -/
theorem C13_bwts_pure (s : List Nat) (hb : ∀ x ∈ s, x < 256) :
    decode (bwtsSpec s) = s ∧ bwtsSpec (decode s) = s :=
  ⟨decode_bwtsSpec s, bwtsSpec_decode s hb⟩

/-! ## error paths of the model (no fault) -/

/-- Inverse declines (error, no fault) a destination shorter than the input and an input above
`_BWTS_MAX_BLOCK_SIZE`; an empty input or an empty destination yields "0 bytes, no error". -/
theorem C13_bwts_inverse_declines (fill : Nat) (t : List Nat) (d : Nat) :
    ((t.length = 0 ∨ d = 0) → bwtsInverseFill fill t d = .ok []) ∧
    (¬ (t.length = 0 ∨ d = 0) → (t.length > maxBlockSize ∨ t.length > d) →
      bwtsInverseFill fill t d = .err) := by
  constructor
  · intro h; unfold bwtsInverseFill; rw [if_pos h]
  · intro h0 h; unfold bwtsInverseFill; rw [if_neg h0]
    by_cases h1 : t.length > maxBlockSize
    · rw [if_pos h1]
    · rw [if_neg h1, if_pos (h.resolve_left h1)]

/-- Forward (model) declines a destination shorter than `MaxEncodedLen = len` and an input above
`_BWTS_MAX_BLOCK_SIZE`, copies a one-byte block, and agrees with the definition there. -/
theorem C13_bwts_forward_small (fill : Nat) (s : List Nat) (d : Nat) :
    ((s.length = 0 ∨ d = 0) → bwtsForwardFill fill s d = .ok []) ∧
    (¬ (s.length = 0 ∨ d = 0) → (d < s.length ∨ s.length > maxBlockSize) →
      bwtsForwardFill fill s d = .err) ∧
    (∀ a, s = [a] → 0 < d → bwtsForwardFill fill s d = .ok (bwtsSpec s)) := by
  refine ⟨?_, ?_, ?_⟩
  · intro h; unfold bwtsForwardFill; rw [if_pos h]
  · intro h0 h; unfold bwtsForwardFill maxEncodedLen; rw [if_neg h0]
    by_cases h1 : d < s.length
    · rw [if_pos h1]
    · rw [if_neg h1, if_pos (h.resolve_left h1)]
  · intro a hs hd
    subst hs
    have e : bwtsSpec [a] = [a] := by
      simp [bwtsSpec, bwtsMatrix, lyndonFactors, lyndonStack, pushMerge, rotations, rot]
    rw [e]
    unfold bwtsForwardFill maxEncodedLen maxBlockSize
    have h1 : ¬ (([a] : List Nat).length = 0 ∨ d = 0) := by simp; omega
    have h2 : ¬ d < ([a] : List Nat).length := by simp; omega
    rw [if_neg h1, if_neg h2]
    simp

/-! ## satisfiability of the hypotheses, and kernel-evaluated TESTS (tests, not proofs) -/

example : ∃ s : List Nat, (∀ x ∈ s, x < 256) ∧ s.length ≤ maxBlockSize ∧ 2 ≤ s.length :=
  ⟨[98, 97], by decide, by decide, by decide⟩

/-- TEST: "banana" factors as b · an · an · a -/
example : lyndonFactors [98, 97, 110, 97, 110, 97] = [[98], [97, 110], [97, 110], [97]] := by decide

/-- TEST: the loops of Inverse on "annbaa" give "banana" (kernel evaluation of the pure loops) -/
example : decode [97, 110, 110, 98, 97, 97] = [98, 97, 110, 97, 110, 97] := by decide +kernel

/-- TEST (through `C13_bwts_pure`): BWTS("banana") = "annbaa" -/
example : bwtsSpec [98, 97, 110, 97, 110, 97] = [97, 110, 110, 98, 97, 97] := by
  have h := (C13_bwts_pure [97, 110, 110, 98, 97, 97] (by decide)).2
  rwa [show decode [97, 110, 110, 98, 97, 97] = [98, 97, 110, 97, 110, 97] by decide +kernel] at h

end Kanzi.C13
