/-
Proofs for the order-0 range coder (property C12, slice range), second part: the tables built from
a frequency table, one chunk (header + payload), the whole block.  Builds on `Kanzi/Proofs/Range.lean`
(step / payload), the header round trip (`Kanzi/Proofs/EntSmall.lean`), `normalize_valid`
(`Kanzi/Proofs/Normalize.lean`) and the histogram lemmas of `Kanzi/Proofs/Ans0.lean`.
-/
import Kanzi.Model.Range
import Kanzi.Proofs.Range
import Kanzi.Proofs.EntSmall
import Kanzi.Proofs.Ans0
import Kanzi.Proofs.Normalize

namespace Kanzi.Range
open Kanzi.Bits Kanzi.EntSmall

/-! ### G. `cumFreqs` and `f2s` -/

theorem cumList_getD : ∀ (f : List Nat) (c s : Nat), s ≤ f.length →
    (cumList c f).getD s 0 = c + (f.take s).sum := by
  intro f
  induction f with
  | nil => intro c s hs; have : s = 0 := by simpa using hs
           subst this; simp [cumList]
  | cons fi fs ih =>
    intro c s hs
    cases s with
    | zero => simp [cumList]
    | succ k =>
      simp only [cumList, List.getD_cons_succ, List.take_succ_cons, List.sum_cons]
      rw [ih (c + fi) k (by simpa using hs)]
      omega

theorem mkCum_getD (f : List Nat) (s : Nat) (hs : s ≤ f.length) : (mkCum f).getD s 0 = cumF f s := by
  unfold mkCum cumF
  have := cumList_getD f 0 s hs
  simp only [Nat.zero_add] at this
  rw [← this]
  simp [Array.getD_eq_getD_getElem?, List.getD_eq_getElem?_getD]

theorem cumF_succ (f : List Nat) (s : Nat) (hs : s < f.length) : cumF f (s + 1) = cumF f s + f.getD s 0 := by
  unfold cumF
  rw [List.take_add_one, List.sum_append]
  simp [List.getD_eq_getElem?_getD, hs]

theorem f2sList_length : ∀ (f : List Nat) (i : Nat), (f2sList f i).length = f.sum := by
  intro f
  induction f with
  | nil => intro i; rfl
  | cons fi fs ih => intro i; simp [f2sList, ih]

theorem f2sList_get : ∀ (f : List Nat) (i s j : Nat), s < f.length → cumF f s ≤ j →
    j < cumF f s + f.getD s 0 → (f2sList f i)[j]? = some (i + s) := by
  intro f
  induction f with
  | nil => intro i s j hs; simp at hs
  | cons fi fs ih =>
    intro i s j hs hlo hhi
    cases s with
    | zero =>
      simp only [cumF, List.take_zero, List.sum_nil, List.getD_cons_zero, Nat.zero_add] at hlo hhi
      simp only [f2sList]
      rw [List.getElem?_append_left (by simpa using hhi)]
      simp [hhi]
    | succ k =>
      have hc : cumF (fi :: fs) (k + 1) = fi + cumF fs k := by simp [cumF]
      rw [hc] at hlo hhi
      simp only [List.getD_cons_succ] at hhi
      simp only [f2sList]
      rw [List.getElem?_append_right (by simp; omega)]
      simp only [List.length_replicate]
      rw [ih (i + 1) k (j - fi) (by simpa using hs) (by omega) (by omega)]
      congr 1; omega

theorem mkF2s_size (f : List Nat) : (mkF2s f).size = f.sum := by
  unfold mkF2s; simp [f2sList_length]

theorem mkF2s_getD (f : List Nat) (s j : Nat) (hs : s < f.length) (hlo : cumF f s ≤ j)
    (hhi : j < cumF f s + f.getD s 0) : (mkF2s f).getD j 0 = s := by
  unfold mkF2s
  have := f2sList_get f 0 s j hs hlo hhi
  simp [Array.getD_eq_getD_getElem?, this]

/-- the tables built from a frequency table summing to `2^lr` serve every symbol of positive
    frequency -/
theorem symTab_mk (f : List Nat) (lr s : Nat) (hsum : f.sum = 2 ^ lr) (hs : s < f.length)
    (hpos : 0 < f.getD s 0) : SymTab (mkCum f) (mkF2s f) lr s := by
  have h1 := mkCum_getD f s (by omega)
  have h2 := mkCum_getD f (s + 1) (by omega)
  rw [cumF_succ f s hs] at h2
  have h3 := cumF_add_le f s hs
  refine ⟨by omega, by omega, ?_⟩
  intro j hlo hhi
  rw [h1] at hlo
  rw [h2] at hhi
  exact ⟨by rw [mkF2s_size]; omega, mkF2s_getD f s j hs hlo hhi⟩

/-- the payload of a chunk for any table summing to `2^lr` (`lr ≤ 16`) whose symbols all have a
    positive frequency: the decoder returns the chunk and stops exactly at the end of the flush -/
theorem payload_table_rt (f : List Nat) (lr : Nat) (hlr : lr ≤ 16) (hsum : f.sum = 2 ^ lr)
    (c : List Nat) (hsym : ∀ a ∈ c, a < f.length ∧ 0 < f.getD a 0) (rest : Bits) :
    decodePayload f lr c.length (encTail (mkCum f) lr c 0 topRange ++ rest) = some (c, rest) := by
  obtain ⟨code, r, h1, h2⟩ := payload_rt (mkCum f) (mkF2s f) lr hlr c
    (fun s hs => symTab_mk f lr s hsum (hsym s hs).1 (hsym s hs).2) rest
  unfold decodePayload
  rw [h1]
  exact h2

/-! ### H. one chunk of `Write`, the whole block -/

theorem lowerLr_bounds : ∀ (k lr len : Nat), 8 ≤ lr → 8 ≤ lowerLr k lr len ∧ lowerLr k lr len ≤ lr := by
  intro k
  induction k with
  | zero => intro lr len h; exact ⟨h, Nat.le_refl _⟩
  | succ k ih =>
    intro lr len h
    simp only [lowerLr]
    split
    · rename_i hc
      have := ih (lr - 1) len (by omega)
      omega
    · exact ⟨h, Nat.le_refl _⟩

theorem chunkLr_bounds (logRange len : Nat) (h : 8 ≤ logRange) :
    8 ≤ chunkLr logRange len ∧ chunkLr logRange len ≤ logRange :=
  lowerLr_bounds logRange logRange len h

/-- everything `rebuildStatistics` guarantees for one non-empty chunk, and the round trip of its
    header and of its payload -/
theorem oneChunk_facts (c : List Nat) (lr : Nat) (hlr : 8 ≤ lr ∧ lr ≤ 15) (hne : c ≠ [])
    (hb : ∀ b ∈ c, b < 256) :
    ∃ o, Kanzi.Normalize.normalize (histogram c) c.length (2 ^ lr) = .ok o ∧
      o.alphabet.length = o.size ∧ o.alphabet ≠ [] ∧
      (∀ rest : Bits, rangeDecodeHeader (rangeEncodeHeader o.alphabet o.freqs lr ++ rest)
          = some ((o.alphabet, o.freqs, lr), rest)) ∧
      (o.alphabet.length = 1 → c = List.replicate c.length (o.alphabet.headD 0)) ∧
      (∀ rest : Bits, decodePayload o.freqs lr c.length (encTail (mkCum o.freqs) lr c 0 topRange ++ rest)
          = some (c, rest)) := by
  have hp8 : 2 ^ 8 ≤ 2 ^ lr := Nat.pow_le_pow_right (by decide) hlr.1
  have hp16 : 2 ^ lr ≤ 2 ^ 16 := Nat.pow_le_pow_right (by decide) (by omega)
  have hlen := histogram_length c
  have hsumh := histogram_sum c hb
  have hpos : 0 < c.length := List.length_pos_iff.mpr hne
  obtain ⟨o, ho, hl, hsum, hsup, _, hasz, hsorted, hmem⟩ :=
    Kanzi.Normalize.normalize_valid (histogram c) (2 ^ lr) (by omega) ⟨by omega, by omega⟩ (by omega)
  rw [hsumh] at ho
  have hc : ∀ b ∈ c, b < 256 → 0 < (histogram c).getD b 0 := fun b hbc h => histogram_pos c b hbc h
  generalize histogram c = h at *
  have halt : ∀ s ∈ o.alphabet, s < 256 := fun s hs => by have := ((hmem s).mp hs).1; omega
  have hz : ∀ i, i ∉ o.alphabet → o.freqs.getD i 0 = 0 := by
    intro i hi
    by_cases hi256 : i < h.length
    · have hh : h.getD i 0 = 0 := by
        apply Decidable.byContradiction
        intro hc
        exact hi ((hmem i).mpr ⟨hi256, hc⟩)
      have := hsup i hi256
      rw [hh] at this
      have : ¬ 0 < o.freqs.getD i 0 := fun hc => by have := this.mpr hc; omega
      omega
    · have hn : o.freqs[i]? = none := List.getElem?_eq_none (by omega)
      rw [List.getD_eq_getElem?_getD, hn]; rfl
  have hposA : ∀ s ∈ o.alphabet, 1 ≤ o.freqs.getD s 0 := by
    intro s hs
    obtain ⟨h1, h2⟩ := (hmem s).mp hs
    exact (hsup s h1).mp (by omega)
  have hsumA : (o.alphabet.map (fun s => o.freqs.getD s 0)).sum = 2 ^ lr := by
    rw [← sum_over_alphabet o.alphabet o.freqs hsorted (by intro s hs; have := halt s hs; omega) hz, hsum]
  have hle : ∀ s ∈ o.alphabet, o.freqs.getD s 0 ≤ 2 ^ lr := by
    intro s hsa
    rw [← hsumA]
    exact mem_le_sum _ _ (List.mem_map.mpr ⟨s, hsa, rfl⟩)
  have hin : ∀ b ∈ c, b ∈ o.alphabet := by
    intro b hbc
    have h256 := hb b hbc
    refine (hmem b).mpr ⟨by omega, ?_⟩
    have := hc b hbc h256
    omega
  have hneA : o.alphabet ≠ [] := by
    obtain ⟨b, hbc⟩ := List.exists_mem_of_ne_nil c hne
    exact List.ne_nil_of_mem (hin b hbc)
  have ht : FreqTable o.alphabet o.freqs lr := ⟨hsorted, halt, hneA, by omega, hz, hposA, hle⟩
  refine ⟨o, ho, hasz, hneA, fun rest => range_header_roundtrip _ _ lr hlr ht hsumA rest, ?_, ?_⟩
  · intro h1
    apply eq_replicate_of_all
    intro b hbc
    have := hin b hbc
    match hal : o.alphabet, h1, this with
    | [s], _, hm => simpa using hm
  · intro rest
    exact payload_table_rt o.freqs lr (by omega) hsum c
      (fun b hbc => ⟨by have := halt b (hin b hbc); omega, hposA b (hin b hbc)⟩) rest

theorem chunks_rt (chunkSize logRange : Nat) (hlr : 8 ≤ logRange ∧ logRange ≤ 15) (hcs0 : 0 < chunkSize) :
    ∀ (fuel : Nat) (blk : List Nat), blk.length ≤ fuel → (∀ b ∈ blk, b < 256) →
    ∃ enc, encodeChunks fuel chunkSize logRange blk = some enc ∧
      ∀ rest : Bits, decodeChunks fuel chunkSize blk.length (enc ++ rest) = some (blk, rest) := by
  intro fuel
  induction fuel with
  | zero =>
    intro blk hl _
    have : blk = [] := List.length_eq_zero_iff.mp (by omega)
    subst this
    exact ⟨[], rfl, fun rest => rfl⟩
  | succ fuel ih =>
    intro blk hl hb
    by_cases h0 : blk.length = 0
    · have : blk = [] := List.length_eq_zero_iff.mp h0
      subst this
      exact ⟨[], rfl, fun rest => rfl⟩
    · have hclen : (blk.take chunkSize).length = min chunkSize blk.length := List.length_take
      have hcne : blk.take chunkSize ≠ [] := by
        intro h
        rw [h] at hclen
        simp only [List.length_nil] at hclen
        omega
      have hlrc := chunkLr_bounds logRange (blk.take chunkSize).length hlr.1
      obtain ⟨o, ho, hasz, hneA, hhdr, hone, hchunk⟩ := oneChunk_facts (blk.take chunkSize)
        (chunkLr logRange (blk.take chunkSize).length) ⟨hlrc.1, by omega⟩ hcne
        (fun b h => hb b (List.mem_of_mem_take h))
      obtain ⟨tl, htl, hdec⟩ := ih (blk.drop chunkSize) (by rw [List.length_drop]; omega)
        (fun b h => hb b (List.mem_of_mem_drop h))
      have hA0 : ¬ o.alphabet.length = 0 := length_ne_zero_of_ne_nil _ hneA
      have hdl : blk.length - min chunkSize blk.length = (blk.drop chunkSize).length := by
        rw [List.length_drop]; omega
      generalize hlrv : chunkLr logRange (blk.take chunkSize).length = lr at *
      refine ⟨rangeEncodeHeader o.alphabet o.freqs lr
          ++ (if o.size ≤ 1 then [] else encTail (mkCum o.freqs) lr (blk.take chunkSize) 0 topRange)
          ++ tl, ?_, ?_⟩
      · simp only [encodeChunks, if_neg h0, encodeChunk, hlrv, ho, htl]
      · intro rest
        simp only [decodeChunks, if_neg h0, List.append_assoc]
        rw [hhdr]
        simp only [if_neg hA0]
        by_cases h1 : o.alphabet.length = 1
        · have hs : o.size ≤ 1 := by omega
          simp only [if_pos h1, if_pos hs, List.nil_append]
          rw [hdl, hdec rest, ← hclen, ← hone h1]
          simp only [List.take_append_drop]
        · have hs : ¬ o.size ≤ 1 := by omega
          simp only [if_neg h1, if_neg hs]
          rw [← hclen, hchunk]
          simp only
          rw [hclen, hdl, hdec rest]
          simp only [List.take_append_drop]

/-- the whole `Write` (+ `Dispose`) / `Read` -/
theorem block_rt (blk : List Nat) (chunkSize logRange : Nat) (hlr : 8 ≤ logRange ∧ logRange ≤ 15)
    (hcs0 : 0 < chunkSize) (hb : ∀ b ∈ blk, b < 256) :
    ∃ enc, encode blk chunkSize logRange = some enc ∧
      ∀ rest : Bits, decode (enc ++ rest) blk.length chunkSize = some (blk, rest) :=
  chunks_rt chunkSize logRange hlr hcs0 blk.length blk (Nat.le_refl _) hb

end Kanzi.Range
