package main

// entsmall: correspondence stream for the small entropy-coding pieces (property C12):
// VarInt, alphabet, null codec, ANS order-0 / Range frequency headers, ANS order-0 blocks.
// Every op goes through REAL bitstreams (DefaultOutputBitStream / DefaultInputBitStream over memory);
// the canonical answer contains the produced bytes in hex, which the Lean model must reproduce
// bit for bit (lean/Kanzi/Drv/EntSmall.lean).  Oracles on the real code: round trip and exact
// consumption (a 64-bit sentinel written right after the item is read back right after decoding).

import (
	"bytes"
	"encoding/hex"
	"fmt"
	"math/rand"
	"sort"
	"strconv"
	"strings"

	kanzi "github.com/flanglet/kanzi-go/v2"
	"github.com/flanglet/kanzi-go/v2/bitstream"
	"github.com/flanglet/kanzi-go/v2/entropy"
)

const esSentinel = uint64(0xA5C3F00F12345678)

func init() {
	registerStream(&Stream{
		Name: "entsmall",
		Rule: "vi: varint boundaries + random uint32; vd: decode of arbitrary 13-byte strings; al: empty, full, singletons, dense ranges, random subsets of every size 0..256; ad: decode of 40 arbitrary bytes; nu: null codec lengths 0,1,7,8,9,..,65536 (thorough: (1<<23)+-1 as nuL, chunk sizes observed through a logging bitstream); fh/rh: ANS0 / Range header for a given table (block of 2^lr bytes with exactly these counts, NormalizeFrequencies shortcut) incl. every chunk-size class (n<64, n>=64), all-ones chunks, max frequencies; ab: ANS order-0 blocks of random / skewed data, lr 8..15, 1..3 chunks. distinct_nontrivial = distinct ops whose answer is not an error.",
		Gen:  esGen,
		Exec: esExec,
	})
}

// ---------- memory streams ----------

type esSink struct{ bytes.Buffer }

func (s *esSink) Close() error { return nil }

type esSource struct{ *bytes.Reader }

func (s esSource) Close() error { return nil }

func esNewOBS() (*bitstream.DefaultOutputBitStream, *esSink) {
	sink := &esSink{}
	obs, err := bitstream.NewDefaultOutputBitStream(sink, 1024)
	if err != nil {
		panic(err)
	}
	return obs, sink
}

func esNewIBS(b []byte) *bitstream.DefaultInputBitStream {
	ibs, err := bitstream.NewDefaultInputBitStream(esSource{bytes.NewReader(b)}, 1024)
	if err != nil {
		panic(err)
	}
	return ibs
}

// logging wrapper: records every call made by the codec on the output bitstream
type esCall struct {
	kind  byte // 'b' WriteBit, 'B' WriteBits, 'A' WriteArray
	count uint
}

type esLogOBS struct {
	inner kanzi.OutputBitStream
	calls []esCall
}

func (l *esLogOBS) WriteBit(bit int) {
	l.calls = append(l.calls, esCall{'b', 1})
	l.inner.WriteBit(bit)
}
func (l *esLogOBS) WriteBits(bits uint64, length uint) uint {
	l.calls = append(l.calls, esCall{'B', length})
	return l.inner.WriteBits(bits, length)
}
func (l *esLogOBS) WriteArray(bits []byte, length uint) uint {
	l.calls = append(l.calls, esCall{'A', length})
	return l.inner.WriteArray(bits, length)
}
func (l *esLogOBS) Close() error    { return l.inner.Close() }
func (l *esLogOBS) Written() uint64 { return l.inner.Written() }

func esHex(b []byte) string {
	if len(b) == 0 {
		return "-"
	}
	return hex.EncodeToString(b)
}

func esUnhex(s string) ([]byte, bool) {
	if s == "-" {
		return []byte{}, true
	}
	b, err := hex.DecodeString(s)
	return b, err == nil
}

// encode with f, then the sentinel; returns the image of the item alone (zero padded to a byte),
// its bit length, and the full image (item + sentinel) for decoding
func esEncode(f func(obs kanzi.OutputBitStream)) (item []byte, bits uint64, full []byte) {
	obs, sink := esNewOBS()
	f(obs)
	bits = obs.Written()
	obs.Close()
	item = append([]byte{}, sink.Bytes()...)
	obs2, sink2 := esNewOBS()
	f(obs2)
	obs2.WriteBits(esSentinel, 64)
	obs2.Close()
	full = append([]byte{}, sink2.Bytes()...)
	return
}

func esViol(res *Result, site, symptom, what string) {
	if res.Violation == nil {
		res.Violation = &Violation{Kind: "input", Site: site, Symptom: symptom, What: what}
	}
}

// ---------- ops ----------

func esExec(op string, res *Result) (out string) {
	defer func() {
		if r := recover(); r != nil {
			out = "panic"
			esViol(res, "entropy", "panic", fmt.Sprint(r))
		}
	}()
	w := strings.Fields(op)
	if len(w) == 0 {
		return "bad-op"
	}
	res.Tags = append(res.Tags, "op:"+w[0])
	switch w[0] {
	case "vi":
		return esVarInt(w, res)
	case "vd":
		return esVarIntDec(w, res)
	case "al":
		return esAlphabet(w, res)
	case "ad":
		return esAlphabetDec(w, res)
	case "nu":
		return esNull(w, res)
	case "nuL":
		return esNullLarge(w, res)
	case "fh":
		return esAnsHeader(w, res)
	case "rh":
		return esRangeHeader(w, res)
	case "ab":
		return esAnsBlock(w, res)
	}
	return "bad-op"
}

func esVarInt(w []string, res *Result) string {
	if len(w) != 2 {
		return "bad-op"
	}
	v64, err := strconv.ParseUint(w[1], 10, 64)
	if err != nil || v64 >= 1<<32 {
		return "bad-op"
	}
	v := uint32(v64)
	n := 0
	item, bits, full := esEncode(func(obs kanzi.OutputBitStream) { n = entropy.WriteVarInt(obs, v) })
	ibs := esNewIBS(full)
	got := entropy.ReadVarInt(ibs)
	sent := ibs.ReadBits(64)
	dec := "ok"
	if got != v || sent != esSentinel || ibs.Read() != bits+64 {
		dec = fmt.Sprintf("BAD:%d", got)
		esViol(res, "entropy.ReadVarInt", "roundtrip", fmt.Sprintf("wrote %d read %d sentinel %x consumed %d of %d", v, got, sent, ibs.Read()-64, bits))
	}
	if uint64(8*n) != bits || n > 5 {
		esViol(res, "entropy.WriteVarInt", "length", fmt.Sprintf("returned %d bytes, wrote %d bits", n, bits))
	}
	res.Nontrivial = true
	res.Sample = map[string]any{"op": "vi", "v": v, "bytes": n}
	return fmt.Sprintf("ok %d %s dec=%s", n, esHex(item), dec)
}

func esVarIntDec(w []string, res *Result) string {
	if len(w) != 2 {
		return "bad-op"
	}
	b, ok := esUnhex(w[1])
	if !ok || len(b) < 5 {
		return "bad-op"
	}
	ibs := esNewIBS(b)
	v := entropy.ReadVarInt(ibs)
	res.Nontrivial = true
	return fmt.Sprintf("ok %d read=%d", v, ibs.Read())
}

func esAlphabet(w []string, res *Result) string {
	a := make([]int, 0, len(w)-1)
	for _, s := range w[1:] {
		x, err := strconv.Atoi(s)
		if err != nil {
			return "bad-op"
		}
		a = append(a, x)
	}
	if len(a) > 256 {
		obs, _ := esNewOBS()
		if _, err := entropy.EncodeAlphabet(obs, a); err != nil {
			return "err:size"
		}
		return "ok-unexpected"
	}
	var cnt int
	var eerr error
	item, bits, full := esEncode(func(obs kanzi.OutputBitStream) { cnt, eerr = entropy.EncodeAlphabet(obs, a) })
	if eerr != nil {
		return "err:size"
	}
	ibs := esNewIBS(full)
	buf := make([]int, 256)
	n, derr := entropy.DecodeAlphabet(ibs, buf)
	sent := ibs.ReadBits(64)
	dec := "ok"
	same := derr == nil && n == len(a)
	if same {
		for i := range a {
			if buf[i] != a[i] {
				same = false
			}
		}
	}
	if !same || sent != esSentinel || ibs.Read() != bits+64 || cnt != len(a) {
		dec = "BAD"
		esViol(res, "entropy.DecodeAlphabet", "roundtrip", fmt.Sprintf("alphabet of %d symbols: decoded %d (err %v), sentinel %x, consumed %d of %d bits", len(a), n, derr, sent, ibs.Read()-64, bits))
	}
	res.Nontrivial = true
	res.Tags = append(res.Tags, fmt.Sprintf("alsize:%d", (len(a)+31)/32*32))
	res.Sample = map[string]any{"op": "al", "size": len(a), "bits": bits}
	return fmt.Sprintf("ok %d bits=%d %s dec=%s", len(a), bits, esHex(item), dec)
}

func esAlphabetDec(w []string, res *Result) string {
	if len(w) != 2 {
		return "bad-op"
	}
	b, ok := esUnhex(w[1])
	if !ok || len(b) < 34 {
		return "bad-op"
	}
	ibs := esNewIBS(b)
	buf := make([]int, 256)
	n, err := entropy.DecodeAlphabet(ibs, buf)
	if err != nil {
		return "err:decode"
	}
	var sb strings.Builder
	fmt.Fprintf(&sb, "ok %d read=%d |", n, ibs.Read())
	for i := 0; i < n; i++ {
		sb.WriteByte(' ')
		sb.WriteString(strconv.Itoa(buf[i]))
		if i > 0 && buf[i] <= buf[i-1] {
			esViol(res, "entropy.DecodeAlphabet", "not-increasing", "decoded alphabet not strictly increasing")
		}
	}
	res.Nontrivial = true
	return sb.String()
}

func esChunks(calls []esCall) string {
	var cs []string
	for _, c := range calls {
		if c.kind == 'A' {
			cs = append(cs, strconv.Itoa(int(c.count/8)))
		}
	}
	if len(cs) == 0 {
		return "-"
	}
	return strings.Join(cs, ",")
}

// null codec on block b; returns chunk list, item image and the decode verdict
func esNullRun(b []byte, res *Result, wantHex bool) (chunks string, item []byte, dec string) {
	var calls []esCall
	enc := func(obs kanzi.OutputBitStream) {
		l := &esLogOBS{inner: obs}
		e, err := entropy.NewNullEntropyEncoder(l)
		if err != nil {
			panic(err)
		}
		n, err := e.Write(b)
		if err != nil || n != len(b) {
			esViol(res, "entropy.NullEntropyEncoder.Write", "count", fmt.Sprintf("Write returned %d, %v for %d bytes", n, err, len(b)))
		}
		e.Dispose()
		calls = l.calls
	}
	obs, sink := esNewOBS()
	enc(obs)
	bits := obs.Written()
	obs.WriteBits(esSentinel, 64)
	obs.Close()
	full := sink.Bytes()
	if wantHex {
		item = append([]byte{}, full[:len(full)-8]...)
	}
	ibs := esNewIBS(full)
	d, err := entropy.NewNullEntropyDecoder(ibs)
	if err != nil {
		panic(err)
	}
	got := make([]byte, len(b))
	n, rerr := d.Read(got)
	sent := ibs.ReadBits(64)
	dec = "ok"
	if rerr != nil || n != len(b) || !bytes.Equal(got, b) || sent != esSentinel || ibs.Read() != bits+64 || bits != uint64(8*len(b)) {
		dec = "BAD"
		esViol(res, "entropy.NullEntropyDecoder.Read", "roundtrip", fmt.Sprintf("%d bytes: read %d err %v sentinel %x bits %d", len(b), n, rerr, sent, bits))
	}
	return esChunks(calls), item, dec
}

func esNull(w []string, res *Result) string {
	if len(w) != 2 {
		return "bad-op"
	}
	b, ok := esUnhex(w[1])
	if !ok {
		return "bad-op"
	}
	chunks, item, dec := esNullRun(b, res, true)
	res.Nontrivial = true
	res.Key = fmt.Sprintf("nu %d", len(b))
	res.Sample = map[string]any{"op": "nu", "len": len(b)}
	return fmt.Sprintf("ok n=%d chunks=%s %s dec=%s", len(b), chunks, esHex(item), dec)
}

func esGenBytes(n, seed int) []byte {
	b := make([]byte, n)
	for i := range b {
		b[i] = byte(i*131 + seed + (i/256)*7)
	}
	return b
}

func esNullLarge(w []string, res *Result) string {
	if len(w) != 3 {
		return "bad-op"
	}
	n, err1 := strconv.Atoi(w[1])
	seed, err2 := strconv.Atoi(w[2])
	if err1 != nil || err2 != nil || n < 0 || n > 1<<26 {
		return "bad-op"
	}
	chunks, _, dec := esNullRun(esGenBytes(n, seed), res, false)
	res.Nontrivial = true
	res.Sample = map[string]any{"op": "nuL", "len": n, "dec": dec}
	return fmt.Sprintf("ok n=%d chunks=%s", n, chunks)
}

type esEntry struct{ sym, freq int }

func esParseTable(s string) ([]esEntry, bool) {
	var t []esEntry
	for _, p := range strings.Split(s, ",") {
		xy := strings.Split(p, ":")
		if len(xy) != 2 {
			return nil, false
		}
		a, e1 := strconv.Atoi(xy[0])
		f, e2 := strconv.Atoi(xy[1])
		if e1 != nil || e2 != nil || a < 0 || a > 255 || f < 0 {
			return nil, false
		}
		t = append(t, esEntry{a, f})
	}
	return t, true
}

func esArrange(mode string, t []esEntry) []byte {
	var b []byte
	if mode == "r" {
		for _, e := range t {
			for i := 0; i < e.freq; i++ {
				b = append(b, byte(e.sym))
			}
		}
		return b
	}
	left := make([]int, len(t))
	for i, e := range t {
		left[i] = e.freq
	}
	for {
		any := false
		for i, e := range t {
			if left[i] > 0 {
				b = append(b, byte(e.sym))
				left[i]--
				any = true
			}
		}
		if !any {
			return b
		}
	}
}

// ANS order 0 encode of blk (one instance), decode + sentinel; returns image, bits, call log, verdict
func esAnsRun(blk []byte, chunk, lr uint, res *Result) (item []byte, bits uint64, calls []esCall, dec string, errTok string) {
	obs, sink := esNewOBS()
	l := &esLogOBS{inner: obs}
	e, err := entropy.NewANSRangeEncoder(l, 0, chunk, lr)
	if err != nil {
		return nil, 0, nil, "", "err:ctor"
	}
	if _, err = e.Write(blk); err != nil {
		return nil, 0, nil, "", "err:encode"
	}
	e.Dispose()
	bits = obs.Written()
	calls = l.calls
	obs.WriteBits(esSentinel, 64)
	obs.Close()
	full := sink.Bytes()
	// image of the item alone, zero padded
	nb := int((bits + 7) / 8)
	item = append([]byte{}, full[:nb]...)
	if bits%8 != 0 {
		item[nb-1] &= byte(0xFF << (8 - bits%8))
	}
	ibs := esNewIBS(full)
	d, err := entropy.NewANSRangeDecoder(ibs, 0, chunk)
	if err != nil {
		return nil, 0, nil, "", "err:ctor"
	}
	got := make([]byte, len(blk))
	n, rerr := d.Read(got)
	dec = "ok"
	var sent uint64
	if rerr == nil {
		sent = ibs.ReadBits(64)
	}
	if rerr != nil || n != len(blk) || !bytes.Equal(got, blk) || sent != esSentinel || ibs.Read() != bits+64 {
		dec = "BAD"
		esViol(res, "entropy.ANSRangeDecoder.Read", "roundtrip", fmt.Sprintf("ANS0 lr=%d chunk=%d len=%d: read %d err %v sentinel %x consumed %d of %d", lr, chunk, len(blk), n, rerr, sent, int64(ibs.Read())-64, bits))
	}
	return
}

func esAnsHeader(w []string, res *Result) string {
	if len(w) != 4 {
		return "bad-op"
	}
	lr, err := strconv.Atoi(w[1])
	t, ok := esParseTable(w[3])
	if err != nil || !ok || lr < 8 || lr > 16 {
		return "bad-op"
	}
	blk := esArrange(w[2], t)
	chunk := max(1024, 1<<lr)
	item, bits, calls, dec, etok := esAnsRun(blk, uint(chunk), uint(lr), res)
	if etok != "" {
		return etok
	}
	// header length: everything before the payload section of encodeChunk
	// (varint of the payload size, 4 x 32 bits, the payload array)
	hdr := bits
	if len(t) > 1 && len(blk) > 32 {
		payload := uint64(0)
		if k := len(calls) - 1; k >= 0 && calls[k].kind == 'A' {
			payload = uint64(calls[k].count)
		}
		vi := uint64(8)
		for p := payload / 8; p >= 128; p >>= 7 {
			vi += 8
		}
		hdr = bits - payload - 128 - vi
	}
	res.Nontrivial = true
	res.Tags = append(res.Tags, fmt.Sprintf("lr:%d", lr), fmt.Sprintf("hdr-alsize:%d", (len(t)+31)/32*32))
	res.Sample = map[string]any{"op": "fh", "lr": lr, "symbols": len(t), "bits": bits, "hdrbits": hdr}
	// tbl=ok: the table is what the decoder rebuilt iff the block round trips (observable proxy)
	tbl := "ok"
	if dec != "ok" {
		tbl = "BAD"
	}
	return fmt.Sprintf("ok tbl=%s bits=%d hdrbits=%d %s dec=%s", tbl, bits, hdr, esHex(item), dec)
}

func esRangeHeader(w []string, res *Result) string {
	if len(w) != 4 {
		return "bad-op"
	}
	lr, err := strconv.Atoi(w[1])
	t, ok := esParseTable(w[3])
	if err != nil || !ok || lr < 8 || lr > 16 {
		return "bad-op"
	}
	blk := esArrange(w[2], t)
	chunk := max(1024, 1<<lr)
	obs, sink := esNewOBS()
	l := &esLogOBS{inner: obs}
	e, cerr := entropy.NewRangeEncoder(l, uint(chunk), uint(lr))
	if cerr != nil {
		return "err:ctor"
	}
	if _, werr := e.Write(blk); werr != nil {
		return "err:encode"
	}
	e.Dispose()
	bits := obs.Written()
	obs.WriteBits(esSentinel, 64)
	obs.Close()
	full := sink.Bytes()
	// header = everything before the first payload write (28 or 60 bits; header WriteBits are <= 16 bits)
	hdr := uint64(0)
	for _, c := range l.calls {
		if c.kind == 'B' && c.count >= 28 {
			break
		}
		hdr += uint64(c.count)
	}
	nb := int((hdr + 7) / 8)
	item := append([]byte{}, full[:nb]...)
	if hdr%8 != 0 {
		item[nb-1] &= byte(0xFF << (8 - hdr%8))
	}
	ibs := esNewIBS(full)
	d, derr := entropy.NewRangeDecoder(ibs, uint(chunk))
	if derr != nil {
		return "err:ctor"
	}
	got := make([]byte, len(blk))
	n, rerr := d.Read(got)
	var sent uint64
	if rerr == nil {
		sent = ibs.ReadBits(64)
	}
	tok := "ok"
	if rerr != nil || n != len(blk) || !bytes.Equal(got, blk) || sent != esSentinel || ibs.Read() != bits+64 {
		tok = "BAD"
		esViol(res, "entropy.RangeDecoder.Read", "roundtrip", fmt.Sprintf("RANGE lr=%d len=%d: read %d err %v sentinel %x consumed %d of %d", lr, len(blk), n, rerr, sent, int64(ibs.Read())-64, bits))
	}
	res.Nontrivial = true
	res.Tags = append(res.Tags, fmt.Sprintf("lr:%d", lr))
	res.Sample = map[string]any{"op": "rh", "lr": lr, "symbols": len(t), "hdrbits": hdr}
	return fmt.Sprintf("%s hdrbits=%d %s", tok, hdr, esHex(item))
}

func esAnsBlock(w []string, res *Result) string {
	if len(w) != 4 {
		return "bad-op"
	}
	lr, e1 := strconv.Atoi(w[1])
	chunk, e2 := strconv.Atoi(w[2])
	blk, ok := esUnhex(w[3])
	if e1 != nil || e2 != nil || !ok {
		return "bad-op"
	}
	item, bits, _, dec, etok := esAnsRun(blk, uint(chunk), uint(lr), res)
	if etok != "" {
		return etok
	}
	res.Nontrivial = true
	res.Tags = append(res.Tags, fmt.Sprintf("lr:%d", lr))
	res.Sample = map[string]any{"op": "ab", "lr": lr, "len": len(blk), "bits": bits}
	return fmt.Sprintf("ok bits=%d %s dec=%s", bits, esHex(item), dec)
}

// ---------- generators ----------

func esTableOp(kind string, lr int, mode string, t []esEntry) string {
	sort.Slice(t, func(i, j int) bool { return t[i].sym < t[j].sym })
	var sb strings.Builder
	fmt.Fprintf(&sb, "%s %d %s ", kind, lr, mode)
	for i, e := range t {
		if i > 0 {
			sb.WriteByte(',')
		}
		fmt.Fprintf(&sb, "%d:%d", e.sym, e.freq)
	}
	return sb.String()
}

// random table of n distinct symbols, positive frequencies summing to 1<<lr
func esRandTable(r *rand.Rand, n, lr, shape int) []esEntry {
	scale := 1 << lr
	syms := r.Perm(256)[:n]
	f := make([]int, n)
	for i := range f {
		f[i] = 1
	}
	rest := scale - n
	switch shape {
	case 0: // one dominant
		f[r.Intn(n)] += rest
	case 1: // flat
		for i := 0; rest > 0; i = (i + 1) % n {
			f[i]++
			rest--
		}
	case 2: // geometric
		for i := 0; i < n && rest > 0; i++ {
			d := (rest + 1) / 2
			f[i] += d
			rest -= d
		}
		f[0] += rest
	default: // random
		for rest > 0 {
			d := 1 + r.Intn(1+rest/(1+r.Intn(n)))
			if d > rest {
				d = rest
			}
			f[r.Intn(n)] += d
			rest -= d
		}
	}
	t := make([]esEntry, n)
	for i := range t {
		t[i] = esEntry{syms[i], f[i]}
	}
	return t
}

func esGen(r *rand.Rand, tier string, n int, emit func(op string, tags ...string)) {
	thorough := tier == "thorough"
	// --- varint
	for _, v := range []uint64{0, 1, 127, 128, 129, 255, 256, 16383, 16384, 16385, 1<<21 - 1, 1 << 21, 1<<21 + 1,
		1<<28 - 1, 1 << 28, 1<<28 + 1, 1<<31 - 1, 1 << 31, 1<<32 - 2, 1<<32 - 1} {
		emit(fmt.Sprintf("vi %d", v), "family:vi-boundary")
	}
	nv := 3000
	if thorough {
		nv = 100000
	}
	for i := 0; i < nv; i++ {
		v := r.Uint64() & (1<<uint(1+r.Intn(32)) - 1)
		emit(fmt.Sprintf("vi %d", v), "family:vi-random")
	}
	for i := 0; i < nv/2; i++ {
		b := make([]byte, 13)
		r.Read(b)
		for j := 0; j < 5; j++ { // favour long encodings
			if r.Intn(3) > 0 {
				b[j] |= 0x80
			}
		}
		emit("vd "+hex.EncodeToString(b), "family:vd-random")
	}
	emit("vd ffffffffffffffffffffffffff", "family:vd-directed")
	emit("vd 80808080f0ffffffffffffffff", "family:vd-directed")
	emit("vd 8080808000ffffffffffffffff", "family:vd-directed")
	// --- alphabets
	alOp := func(a []int) string {
		sort.Ints(a)
		var sb strings.Builder
		sb.WriteString("al")
		for _, s := range a {
			sb.WriteByte(' ')
			sb.WriteString(strconv.Itoa(s))
		}
		return sb.String()
	}
	emit("al", "family:al-empty")
	full := make([]int, 256)
	for i := range full {
		full[i] = i
	}
	emit(alOp(full), "family:al-full")
	for s := 0; s < 256; s++ {
		if thorough || s < 17 || s > 246 || s%8 == 0 || s%8 == 7 {
			emit(alOp([]int{s}), "family:al-single")
		}
	}
	for lo := 0; lo < 256; lo += 5 {
		for _, ln := range []int{2, 7, 8, 9, 63, 64, 65, 255} {
			if lo+ln <= 256 {
				a := make([]int, ln)
				for i := range a {
					a[i] = lo + i
				}
				emit(alOp(a), "family:al-dense")
			}
		}
	}
	for i := 0; i < 256; i++ { // all but one
		if thorough || i%9 == 0 || i == 255 {
			a := append(append([]int{}, full[:i]...), full[i+1:]...)
			emit(alOp(a), "family:al-255")
		}
	}
	reps := 3
	if thorough {
		reps = 40
	}
	for size := 1; size <= 255; size++ {
		for k := 0; k < reps; k++ {
			emit(alOp(append([]int{}, r.Perm(256)[:size]...)), "family:al-random")
		}
	}
	big := make([]int, 257)
	emit(alOp(big), "family:al-too-big")
	for i := 0; i < nv/4; i++ {
		b := make([]byte, 40)
		r.Read(b)
		if r.Intn(4) == 0 {
			b[0] &= 0x7F // full/empty forms
		} else {
			b[0] |= 0x80
		}
		emit("ad "+hex.EncodeToString(b), "family:ad-random")
	}
	// --- null codec
	lens := []int{0, 1, 2, 7, 8, 9, 15, 16, 17, 31, 32, 33, 63, 64, 65, 255, 256, 257, 1023, 1024, 1025, 4096, 1 << 16}
	for _, ln := range lens {
		b := make([]byte, ln)
		r.Read(b)
		emit("nu "+esHex(b), "family:nu-length")
	}
	for i := 0; i < 200; i++ {
		b := make([]byte, r.Intn(300))
		r.Read(b)
		emit("nu "+esHex(b), "family:nu-random")
	}
	emit("nuL 100000 1", "family:nu-large")
	if thorough {
		for _, ln := range []int{1<<23 - 1, 1 << 23, 1<<23 + 1, 1<<24 + 5} {
			emit(fmt.Sprintf("nuL %d %d", ln, r.Intn(256)), "family:nu-large")
		}
	}
	// --- frequency headers
	maxLrRand := 12
	if thorough {
		maxLrRand = 15
	}
	for lr := 8; lr <= 15; lr++ {
		// directed: 2 symbols extreme, all-ones chunks, chunk-size classes
		emit(esTableOp("fh", lr, "i", []esEntry{{0, 1}, {255, 1<<lr - 1}}), "family:fh-directed")
		emit(esTableOp("fh", lr, "i", []esEntry{{3, 1<<lr - 1}, {4, 1}}), "family:fh-directed")
		emit(esTableOp("rh", lr, "i", []esEntry{{0, 1}, {255, 1<<lr - 1}}), "family:rh-directed")
		emit(esTableOp("rh", lr, "r", []esEntry{{9, 1 << lr}}), "family:rh-single")
		emit(esTableOp("fh", lr, "r", []esEntry{{9, 1 << lr}}), "family:fh-single")
		for _, nsym := range []int{2, 6, 7, 8, 13, 14, 63, 64, 65, 72, 73, 255, 256} {
			if nsym > 1<<lr {
				continue
			}
			for shape := 0; shape < 4; shape++ {
				for _, kind := range []string{"fh", "rh"} {
					mode := "i"
					if shape == 2 {
						mode = "r"
					}
					emit(esTableOp(kind, lr, mode, esRandTable(r, nsym, lr, shape)), "family:"+kind+"-classes")
				}
			}
		}
	}
	nh := 600
	if thorough {
		nh = 6000
	}
	for i := 0; i < nh; i++ {
		lr := 8 + r.Intn(maxLrRand-7)
		nsym := 2 + r.Intn(255)
		if r.Intn(3) == 0 {
			nsym = 2 + r.Intn(20)
		}
		kind := "fh"
		if i%3 == 2 {
			kind = "rh"
		}
		mode := "i"
		if r.Intn(4) == 0 {
			mode = "r"
		}
		emit(esTableOp(kind, lr, mode, esRandTable(r, nsym, lr, 3)), "family:"+kind+"-random")
	}
	// --- ANS order-0 blocks (normalisation runs; several chunks)
	nb := 400
	if thorough {
		nb = 5000
	}
	for i := 0; i < nb; i++ {
		lr := 8 + r.Intn(8)
		chunk := 1024
		ln := 33 + r.Intn(1500)
		switch r.Intn(6) {
		case 0:
			ln = 33 + r.Intn(8)
		case 1:
			ln = 1024 + r.Intn(5) - 2
		case 2:
			ln = 2048 + r.Intn(1100)
		}
		b := make([]byte, ln)
		switch r.Intn(5) {
		case 0:
			r.Read(b)
		case 1: // skewed
			for j := range b {
				b[j] = byte(int(r.ExpFloat64() * 6))
			}
		case 2: // two symbols
			for j := range b {
				if r.Intn(40) == 0 {
					b[j] = 200
				} else {
					b[j] = 17
				}
			}
		case 3: // one symbol in some chunks
			for j := range b {
				b[j] = byte(65 + (j/1024)%2*r.Intn(3))
			}
		default: // text-like
			for j := range b {
				b[j] = "etaoin shrdlu,.\nETAOIN"[r.Intn(22)]
			}
		}
		emit(fmt.Sprintf("ab %d %d %s", lr, chunk, esHex(b)), "family:ab-random")
	}
	for _, ln := range []int{0, 1, 31, 32} { // raw path
		b := make([]byte, ln)
		r.Read(b)
		emit(fmt.Sprintf("ab 12 1024 %s", esHex(b)), "family:ab-raw")
	}
	_ = n
}
