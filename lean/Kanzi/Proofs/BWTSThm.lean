/-
Slice `bwts` (C13): the statements used by `Kanzi/Properties/C13_bwts.lean`.

  * `decode_bwtsSpec`     `decode (bwtsSpec s) = s`          (inverse ∘ forward = id)
  * `bwtsSpec_decode`     `bwtsSpec (decode t) = t`          (forward ∘ inverse = id, by counting)
  * the corresponding statements about the model `bwtsInverseFill` of `BWTS.Inverse`
-/
import Kanzi.Proofs.BWTSMain
import Mathlib.Data.Fintype.Card
import Mathlib.Data.Fintype.Vector

namespace Kanzi.BWTS

/-! ## inverse ∘ forward -/

theorem decode_bwtsSpec (s : List Nat) : decode (bwtsSpec s) = s := by
  have hf := lyndonFactors_spec s
  have hL := bwtsMatrix_sortedRots s
  have hlen : (bwtsSpec s).length = (bwtsMatrix s).length := by rw [bwtsSpec_eq, List.length_map]
  have hU : unvis (bwtsMatrix s).length [] = List.range (bwtsMatrix s).length := by
    unfold unvis
    apply List.filter_eq_self.2
    intro a _; simp
  have := visit_main hL (lyndonFactors s) hf.2.1 hf.2.2
    (by rw [bwtsMatrix_length, hf.1]) ((bwtsMatrix s).length + 2) [] 0 (lyndonFactors s) []
    (by simp) (by simp) (by intro q hq; omega) (by simp)
    (by rw [hU, range_map_getD]; exact bwtsMatrix_perm s) (by omega)
  rw [hf.1] at this
  unfold decode
  rw [hlen]
  exact this

/-! ## bytes -/

theorem lastL_mem (x : List Nat) (hx : x ≠ []) : lastL x ∈ x := by
  unfold lastL
  rw [List.getLastD_eq_getLast?, List.getLast?_eq_getLast_of_ne_nil hx]
  exact List.getLast_mem hx

theorem mem_rot {w : List Nat} {k : Nat} {a : Nat} (h : a ∈ rot w k) : a ∈ w := by
  unfold rot at h
  rcases List.mem_append.1 h with h | h
  · exact List.mem_of_mem_drop h
  · exact List.mem_of_mem_take h

theorem mem_bwtsSpec {s : List Nat} {a : Nat} (h : a ∈ bwtsSpec s) : a ∈ s := by
  rw [bwtsSpec_eq] at h
  obtain ⟨x, hx, rfl⟩ := List.mem_map.1 h
  have hx' := (bwtsMatrix_perm s).mem_iff.1 hx
  obtain ⟨w, hw, k, hk, rfl⟩ := mem_flatMap_rotations.1 hx'
  have hne : rot w k ≠ [] := by
    intro h0
    have := congrArg List.length h0
    rw [rot_length, List.length_nil] at this
    omega
  have h1 := mem_rot (lastL_mem _ hne)
  rw [← (lyndonFactors_spec s).1]
  exact List.mem_flatten.2 ⟨w, hw, h1⟩

theorem bwtsSpec_bytes {s : List Nat} (hb : ∀ x ∈ s, x < 256) : ∀ x ∈ bwtsSpec s, x < 256 :=
  fun x hx => hb x (mem_bwtsSpec hx)

theorem getD_lt_of_bytes {t : List Nat} (hb : ∀ x ∈ t, x < 256) (q : Nat) : t.getD q 0 < 256 := by
  by_cases h : q < t.length
  · rw [getD_eq t 0 q h]; exact hb _ (List.getElem_mem h)
  · simp [List.getD_eq_getElem?_getD, List.getElem?_eq_none (by omega : t.length ≤ q)]

theorem decode_bytes {t : List Nat} (hb : ∀ x ∈ t, x < 256) : ∀ x ∈ decode t, x < 256 := by
  intro x hx
  unfold decode at hx
  obtain ⟨q, _, rfl⟩ := List.mem_map.1 hx
  exact getD_lt_of_bytes hb q

theorem decode_length (t : List Nat) (hb : ∀ x ∈ t, x < 256) : (decode t).length = t.length :=
  (inverse_core 0 t t.length hb (Nat.le_refl _)).choose_spec.2.2

/-! ## forward ∘ inverse, by counting: an injective self-map of a finite set is surjective -/

def toF (l : List Nat) : List (Fin 256) := l.map (fun x => Fin.ofNat 256 x)
def toN (v : List (Fin 256)) : List Nat := v.map (fun x => x.val)

theorem toN_toF {l : List Nat} (hb : ∀ x ∈ l, x < 256) : toN (toF l) = l := by
  unfold toN toF
  rw [List.map_map]
  conv => rhs; rw [← List.map_id l]
  apply List.map_congr_left
  intro x hx
  simp [Fin.ofNat, Nat.mod_eq_of_lt (hb x hx)]

theorem toF_toN (v : List (Fin 256)) : toF (toN v) = v := by
  unfold toN toF
  rw [List.map_map]
  conv => rhs; rw [← List.map_id v]
  apply List.map_congr_left
  intro x _
  apply Fin.ext
  simp [Fin.ofNat, Nat.mod_eq_of_lt x.isLt]

theorem toN_bytes (v : List (Fin 256)) : ∀ x ∈ toN v, x < 256 := by
  intro x hx
  obtain ⟨y, _, rfl⟩ := List.mem_map.1 hx
  exact y.isLt

theorem bwtsSpec_decode (t : List Nat) (hb : ∀ x ∈ t, x < 256) : bwtsSpec (decode t) = t := by
  -- the forward transform on byte vectors of length `n`
  let n := t.length
  let F : List.Vector (Fin 256) n → List.Vector (Fin 256) n := fun v =>
    ⟨toF (bwtsSpec (toN v.1)), by simp [toF, toN, bwtsSpec_length, v.2]⟩
  have hinj : Function.Injective F := by
    intro u v huv
    have h1 : toF (bwtsSpec (toN u.1)) = toF (bwtsSpec (toN v.1)) := congrArg Subtype.val huv
    have h2 := congrArg toN h1
    rw [toN_toF (bwtsSpec_bytes (toN_bytes _)), toN_toF (bwtsSpec_bytes (toN_bytes _))] at h2
    have h3 := congrArg decode h2
    rw [decode_bwtsSpec, decode_bwtsSpec] at h3
    apply Subtype.ext
    rw [← toF_toN u.1, ← toF_toN v.1, h3]
  obtain ⟨u, hu⟩ := Finite.surjective_of_injective hinj ⟨toF t, by simp [toF, n]⟩
  have h1 : toF (bwtsSpec (toN u.1)) = toF t := congrArg Subtype.val hu
  have h2 := congrArg toN h1
  rw [toN_toF (bwtsSpec_bytes (toN_bytes _)), toN_toF hb] at h2
  rw [← h2, decode_bwtsSpec]

/-! ## the model of `BWTS.Inverse` -/

theorem bwtsInverse_bwtsSpec (fill : Nat) (s : List Nat) (d : Nat) (hb : ∀ x ∈ s, x < 256)
    (hmax : s.length ≤ maxBlockSize) (hd : s.length ≤ d) :
    bwtsInverseFill fill (bwtsSpec s) d = .ok s := by
  have := (bwtsInverseFill_eq fill (bwtsSpec s) d (bwtsSpec_bytes hb)
    (by rw [bwtsSpec_length]; exact hmax) (by rw [bwtsSpec_length]; exact hd)).1
  rw [this, decode_bwtsSpec]

theorem bwtsInverse_total (fill : Nat) (t : List Nat) (d : Nat) (hb : ∀ x ∈ t, x < 256) :
    bwtsInverseFill fill t d ≠ .fault := by
  by_cases hmax : t.length ≤ maxBlockSize
  · by_cases hd : t.length ≤ d
    · rw [(bwtsInverseFill_eq fill t d hb hmax hd).1]; intro h; cases h
    · unfold bwtsInverseFill
      by_cases hA : t.length = 0 ∨ d = 0
      · rw [if_pos hA]; intro h; cases h
      · have hB : ¬ t.length > maxBlockSize := by omega
        have hC : t.length > d := by omega
        rw [if_neg hA, if_neg hB, if_pos hC]; intro h; cases h
  · unfold bwtsInverseFill
    by_cases hA : t.length = 0 ∨ d = 0
    · rw [if_pos hA]; intro h; cases h
    · have hB : t.length > maxBlockSize := by omega
      rw [if_neg hA, if_pos hB]; intro h; cases h

end Kanzi.BWTS
