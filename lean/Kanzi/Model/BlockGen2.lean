/-
Generic block codec, second instalment: the transforms RLT, SRT, PACK / DNA (alias codec), LZ / LZX, LZP,
MM (FSD) and the entropy codecs ANS1, RANGE, HUFFMAN, FPAQ, CM plugged into the
model of `encodingTask.encode` / `decodingTask.decode` of `Kanzi/Model/BlockGen.lean`.  Core Lean only.

What is new with respect to `BlockGen.lean` (which is exact for NONE / ZRLT / MTFT / RANK):

  * DESTINATION SIZES OF THE FORWARD PASS.  They are those of the Go code:
    `ByteTransformSequence.Forward(data[0:blockLength], buffer)` runs the stage reached after an EVEN number
    of swaps into `buffer` = `oBuffer.Buf` (`len ≥ requiredSize`, exactly what an earlier, bigger block of
    the same task left there), and the stage reached after an ODD number of swaps into
    `data[0:blockLength]` re-sliced to exactly `requiredSize` (`cap(data) ≥ requiredSize` is ensured by
    `encode`).  `obuf` = `len(this.oBuffer.Buf)` on entry of `encode` is a parameter of the encoder, and
    `nextObuf` is its value on exit; the stream image threads it per task (task = block index mod jobs).
    This mattered: until fix F44 (/repo af780d6) `RLT.Forward` bounded its output by `len(dst)`, so the
    stream depended on the job count (finding of this slice, reproduced byte for byte by this model).
    Now RLT uses `MaxEncodedLen`, and no modelled transform looks at `len(dst)` beyond its own
    `len(dst) ≥ MaxEncodedLen` test except on paths that fault; the model keeps the real sizes (no
    independence lemma is needed: every theorem holds for every `obuf`).  `MaxEncodedLen` of RLT is not
    monotone (544 for 512 bytes, 513 for 513): after a shrinking stage the destination of the sequence
    can be too small for RLT, which then declines ("output buffer is too small") — modelled as is.
  * THE DATA TYPE HINT.  `encode` sets `ctx["dataType"]` from the magic number of the block (DT_BIN,
    DT_MULTIMEDIA, DT_EXE, or nothing); RLT, PACK/DNA and MM read it and write their own detection back,
    LZ/LZX only read it.  The ctx is a fresh copy for every block.  `seqFwdGo2` threads the value through
    the stages (`0` = DT_UNDEFINED = no entry; a stored DT_UNDEFINED is indistinguishable from no entry
    for every reader).  `transform.newToken` stores `packOnlyDNA = true` in the same ctx for a DNA token
    and nothing resets it: a PACK token AFTER a DNA token of the same chain is built as DNA
    (`kindsOfTokens`).  RLT reads `ctx["entropy"]`: `fast` = the stream's entropy codec is NONE / ANS0 /
    HUFFMAN / RANGE.
  * A Go panic inside a Forward or an Inverse (`.fault` of the transform models) is mapped to `.error`:
    for Forward this is unfaithful (the panic would fail the block instead of skipping the stage) but
    proved unreachable (`Kanzi.BlockGen2.kind_no_fault`: no Forward faults into a destination of at least
    `MaxEncodedLen` bytes); for Inverse both end in ERR_PROCESS_BLOCK.

The decoder is `BlockGen.decodeTaskGen` itself (it only uses `inv`, `maxLen` and `dec`).
-/
import Kanzi.Model.BlockGen
import Kanzi.Model.RLT
import Kanzi.Model.SRT
import Kanzi.Model.Alias
import Kanzi.Model.LZ
import Kanzi.Model.LZP
import Kanzi.Model.FSD
import Kanzi.Model.Ans1
import Kanzi.Model.Range
import Kanzi.Model.Huffman
import Kanzi.Model.Fpaq
import Kanzi.Model.CM

namespace Kanzi.BlockGen2
open Kanzi.Bits Kanzi.TrSmall Kanzi.Block Kanzi.BlockGen

/-! ### transforms with a data type hint -/

/-- a `kanzi.ByteTransform` as the sequence sees it: `fwd dt src len(dst)` (dt = `ctx["dataType"]`, 0 =
none), `ctxw dt src len(dst)` = the value Forward stores into `ctx["dataType"]` (if any), `inv src
len(dst)`, `MaxEncodedLen` -/
structure Tr2 where
  fwd : Nat → List Nat → Nat → Res
  ctxw : Nat → List Nat → Nat → Option Nat
  inv : List Nat → Nat → Res
  maxLen : Nat → Nat

/-- what the decoder (and `MaxEncodedLen` of the sequence) uses -/
def Tr2.toTr (t : Tr2) : Tr := ⟨t.fwd 0, t.inv, t.maxLen⟩

def trsOf (trs : List Tr2) : List Tr := trs.map Tr2.toTr

/-! ### result conversions -/

def ofRlt : RLT.Res → Res
  | .ok t => .ok t
  | .err e => .error e
  | .fault e => .error ("fault:" ++ e)

def ofSrt : SRT.Res → Res
  | .ok t => .ok t
  | .err => .error "err"
  | .fault => .error "fault"

def ofLz : LZ.Res → Res
  | .ok t => .ok t.toList
  | .err e => .error e
  | .fault e => .error ("fault:" ++ e)

def ofLzp : LZP.Res → Res
  | .ok t => .ok t
  | .err e => .error e
  | .fault k _ _ => .error ("fault:" ++ k)

/-! ### the modelled transforms -/

/-- one entry of a `ByteTransformSequence` as `transform.newToken` builds it -/
inductive Kind where
  | none
  | zrlt
  | sbrt (mode : Nat)          -- MTFT = 1, RANK = 2
  | rlt (fast : Bool)          -- `fast`: ctx["entropy"] is NONE / ANS0 / HUFFMAN / RANGE
  | srt
  | alias (onlyDNA : Bool)     -- PACK = false, DNA = true
  | lz (extra : Bool)          -- LZ = false, LZX = true
  | lzp
  | fsd                        -- MM
deriving DecidableEq, Repr

def Kind.tr : Kind → Tr2
  | .none => ⟨fun _ x d => nullForward x d, fun _ _ _ => Option.none, nullInverse, nullMaxEncodedLen⟩
  | .zrlt => ⟨fun _ x d => zrltForward x d, fun _ _ _ => Option.none, zrltInverse, zrltMaxEncodedLen⟩
  | .sbrt m => ⟨fun _ x d => sbrtForward m x d, fun _ _ _ => Option.none, sbrtInverse m, sbrtMaxEncodedLen⟩
  | .rlt fast =>
    ⟨fun dt x d => ofRlt (RLT.rltForward dt fast x d), fun dt x d => RLT.rltCtxWrite dt fast x d,
     fun y n => ofRlt (RLT.rltInverse y n), RLT.rltMaxEncodedLen⟩
  | .srt =>
    ⟨fun _ x d => ofSrt (SRT.srtForward x d), fun _ _ _ => Option.none,
     fun y n => ofSrt (SRT.srtInverse y n), SRT.maxEncodedLen⟩
  | .alias o =>
    ⟨fun dt x d => ofRlt (Alias.aliasForward o dt x d), fun dt x d => Alias.aliasCtxWrite o dt x d,
     fun y n => ofRlt (Alias.aliasInverse y n), Alias.aliasMaxEncodedLen⟩
  | .lz extra =>
    ⟨fun dt x d => ofLz (LZ.lzForward extra dt x.toArray d), fun _ _ _ => Option.none,
     fun y n => ofLz (LZ.lzInverse y.toArray (Array.replicate n 0)), LZ.maxEncodedLen⟩
  | .lzp =>
    ⟨fun _ x d => ofLzp (LZP.lzpForward x d), fun _ _ _ => Option.none,
     fun y n => ofLzp (LZP.lzpInverse false y n), LZP.lzpMaxEncodedLen⟩
  | .fsd =>
    ⟨fun dt x d => ofRlt (FSD.fsdForward dt x d), fun dt x d => FSD.fsdCtxWrite dt x d,
     fun y n => ofRlt (FSD.fsdInverse y n), FSD.fsdMaxEncodedLen⟩

def kindTrs (ks : List Kind) : List Tr2 := ks.map Kind.tr

/-! ### the forward pass of the sequence -/

/-- Go: the loop of `ByteTransformSequence.Forward` from stage `i`.  `even` = an even number of swaps so
far: the stage writes into the caller's `dst` (`l0` bytes), otherwise into the re-sliced source buffer
(`req` bytes).  `dt` = current `ctx["dataType"]`.  A stage may update the ctx whether it succeeds or
not.  Returns (data, skip flags). -/
def seqFwdGo2 (req l0 : Nat) : List Tr2 → Nat → Bool → Nat → List Nat → Nat → List Nat × Nat
  | [], _, _, _, cur, flags => (cur, flags)
  | t :: rest, i, even, dt, cur, flags =>
    match t.fwd dt cur (if even then l0 else req) with
    | .error _ =>
      seqFwdGo2 req l0 rest (i + 1) even ((t.ctxw dt cur (if even then l0 else req)).getD dt) cur flags
    | .ok y =>
      seqFwdGo2 req l0 rest (i + 1) (!even) ((t.ctxw dt cur (if even then l0 else req)).getD dt) y
        (clearFlag flags i)

/-- Go: `ByteTransformSequence.Forward(src, dst)` with `len(dst) = l0 ≥ req = MaxEncodedLen(len(src))` -/
def seqForward2 (trs : List Tr2) (req l0 dt : Nat) (src : List Nat) : List Nat × Nat :=
  if src.length = 0 then ([], 0xFF) else seqFwdGo2 req l0 trs 0 true dt src 0xFF

/-! ### `ctx["dataType"]` as `encode` sets it -/

/-- Go: `internal.IsDataMultimedia` -/
def isDataMultimedia (magic : Nat) : Bool :=
  [0xFFD8FFE0, 0x47494638, 0x89504E47, 0x52494646, 0x664C6143, 0x494433, 0x424D, 0x5034, 0x5035,
   0x5036].contains magic

/-- Go: `internal.IsDataExecutable` -/
def isDataExecutable (magic : Nat) : Bool :=
  [0x7F454C46, 0x4D5A, 0xFEEDFACE, 0xCEFAEDFE, 0xFEEDFACF, 0xCFFAEDFE].contains magic

/-- Go: the entry `encode` stores before `Forward` (the task ctx is a fresh copy of the Writer's, which
has no such entry); `GetMagicType` looks at the first four bytes of the BUFFER, which are the block's
for every block that is not a copy block (more than 15 bytes) -/
def initDt (data : List Nat) : Nat :=
  if isDataCompressed (magicType data) then 7
  else if isDataMultimedia (magicType data) then 2
  else if isDataExecutable (magicType data) then 3
  else 0

/-! ### entropy codecs as the factory builds them -/

/-- `NewANSRangeEncoderWithCtx(obs, &ctx, 1)`: chunks of `16384 << 8` bytes, log range `max(12 - 1, 8)`
(`Ans1.mkParams 16384 12`); a new decoder object for every block -/
def ans1Chunk : Nat := 4194304
def ans1LogRange : Nat := 11
def ans1Ent : Ent :=
  ⟨fun b => Ans1.ans1Encode b ans1Chunk ans1LogRange,
   fun n bs => Ans1.ans1Decode bs n ans1Chunk Ans1.freshTables⟩

/-- `NewRangeEncoderWithCtx(obs, &ctx)`: `_DEFAULT_RANGE_CHUNK_SIZE`, `_DEFAULT_RANGE_LOG_RANGE` -/
def rangeEnt : Ent :=
  ⟨fun b => Range.encode b Range.defaultChunkSize Range.defaultLogRange,
   fun n bs => Range.decode bs n Range.defaultChunkSize⟩

/-- `NewHuffmanEncoder(obs)` / `NewHuffmanDecoderWithCtx` (bitstream version 6): `_HUF_MAX_CHUNK_SIZE`;
the decoder's buffer is new (zeroed) for every block -/
def hufChunk : Nat := 16384
def hufEnt : Ent :=
  ⟨fun b => Huffman.encode b hufChunk, fun n bs => Huffman.decode bs n hufChunk []⟩

/-- `NewFPAQEncoderWithCtx` / `NewFPAQDecoderWithCtx`: chunks of `_FPAQ_DEFAULT_CHUNK_SIZE` = 4 MiB -/
def fpaqEnt : Ent :=
  ⟨fun b => match Fpaq.fpaqEncode Fpaq.DEFAULT_CHUNK b with
            | .ok o => some o
            | .error _ => Option.none,
   fun n bs => match Fpaq.fpaqDecode Fpaq.DEFAULT_CHUNK bs n with
               | .ok r => some r
               | .error _ => Option.none⟩

/-- `NewBinaryEntropyEncoder/Decoder` with a new `CMPredictor` (bitstream version 6: not the version 3
tables), chunks of `_BINARY_ENTROPY_MAX_CHUNK` -/
def cmPred : BinEnt.Pred CM.CM := BinEnt.Pred.ofImpure CM.cmGet CM.cmUpdate
def cmEnt : Ent :=
  ⟨fun b => match BinEnt.encodeBlock cmPred BinEnt.MAX_CHUNK (CM.cmInit false) b with
            | .ok o => some o
            | .error _ => Option.none,
   fun n bs => match BinEnt.decodeBlock cmPred BinEnt.MAX_CHUNK (CM.cmInit false) bs n with
               | .ok r => some r
               | .error _ => Option.none⟩

/-! ### encoder -/

structure Cfg2 where
  ck : Nat
  trs : List Tr2
  ent : Ent
  skipBlocks : Bool
  /-- `ctx["blockSize"]` when it is a `uint` (see `BlockGen.Cfg.bs`) -/
  bs : Option Nat

/-- the configuration seen by the decoder -/
def Cfg2.toCfg (c : Cfg2) : Cfg := ⟨c.ck, trsOf c.trs, c.ent, c.skipBlocks, c.bs⟩

/-- Go: `if len(this.oBuffer.Buf) < requiredSize { buffer = make([]byte, requiredSize) … }` -/
def growTo (obuf req : Nat) : Nat := if obuf < req then req else obuf

/-- output and skip flags of `t.Forward(data[0:blockLength], buffer)` in `encode` -/
def forwardOf (trs : List Tr2) (obuf : Nat) (data : List Nat) : List Nat × Nat :=
  seqForward2 trs (seqMaxLen (trsOf trs) data.length) (growTo obuf (seqMaxLen (trsOf trs) data.length))
    (initDt data) data

/-- the block handed to the entropy coder (not a copy block) and the skip flags written, after the bound of
fix F43 on the post-transform length (`BlockGen.fallback`; `lim` = `ctx["blockSize"]`) -/
def postOf (trs : List Tr2) (lim : Option Nat) (obuf : Nat) (data : List Nat) : List Nat × Nat :=
  fallback lim (seqMaxLen (trsOf trs) data.length) data (forwardOf trs obuf data)

def postBlock (trs : List Tr2) (lim : Option Nat) (obuf : Nat) (data : List Nat) : List Nat :=
  (postOf trs lim obuf data).1

/-- the payload of a block that is not a copy block; `obuf` = `len(oBuffer.Buf)` on entry -/
def encodeWith2 (trs : List Tr2) (ent : Ent) (ckw sum : Nat) (lim : Option Nat) (obuf : Nat) (data : List Nat) :
    Except EncErr Bits :=
  encodeOf false trs.length ent ckw sum (postOf trs lim obuf data)

/-- Go: `encodingTask.encode` from "Compute block checksum" to `obs.Close()` -/
def encodeTaskGen2 (c : Cfg2) (obuf : Nat) (data : List Nat) : Except EncErr Bits :=
  if isCopy c.toCfg data then encodeWith true [nullTr] noneEnt (ckWidth c.ck) (checksum c.ck data) c.bs data
  else encodeWith2 c.trs c.ent (ckWidth c.ck) (checksum c.ck data) c.bs obuf data

/-- `len(oBuffer.Buf)` when `encode` returns (a copy block uses the NONE sequence: `requiredSize` is the
block length) -/
def nextObuf (c : Cfg2) (obuf : Nat) (data : List Nat) : Nat :=
  if isCopy c.toCfg data then growTo obuf data.length
  else growTo obuf (seqMaxLen (trsOf c.trs) data.length)

/-- Go: `decodingTask.decode` -/
def decodeTaskGen2 (c : Cfg2) (B : Nat) (payload : Bits) : BlockGen.DecRes := decodeTaskGen c.toCfg B payload

/-! ### the sequence and the codec announced by a header -/

/-- Go: `transform.newToken`; `dna` = `ctx["packOnlyDNA"]` is set (by an earlier DNA token of the chain) -/
def tokenKind (fast dna : Bool) (t : Nat) : Option Kind :=
  if t = 0 then some .none
  else if t = 3 then some (.lz false)
  else if t = 5 then some (.rlt fast)
  else if t = 6 then some .zrlt
  else if t = 7 then some (.sbrt 1)
  else if t = 8 then some (.sbrt 2)
  else if t = 13 then some .srt
  else if t = 14 then some .lzp
  else if t = 15 then some .fsd
  else if t = 16 then some (.lz true)
  else if t = 18 then some (.alias dna)
  else if t = 19 then some (.alias true)
  else Option.none

def kindsOfTokens (fast : Bool) : List Nat → Bool → Option (List Kind)
  | [], _ => some []
  | t :: ts, dna =>
    match tokenKind fast dna t, kindsOfTokens fast ts (dna || t == 19) with
    | some k, some ks => some (k :: ks)
    | _, _ => Option.none

/-- Go: the test on `ctx["entropy"]` in `RLT.Forward`, on the entropy type of the stream -/
def fastEntropy (e : Nat) : Bool := e == 0 || e == 5 || e == 1 || e == 4

/-- Go: `transform.New(ctx, functionType)` in a stream whose entropy type is `e` -/
def newSeq2 (ft e : Nat) : Option (List Kind) := kindsOfTokens (fastEntropy e) (seqTokens ft) false

/-- Go: `entropy.NewEntropyEncoder/Decoder` for NONE (0), HUFFMAN (1), FPAQ (2), RANGE (4), ANS0 (5), CM (6),
ANS1 (8) -/
def entOf2 (e : Nat) : Option Ent :=
  if e = 0 then some noneEnt else if e = 1 then some hufEnt else if e = 4 then some rangeEnt
  else if e = 5 then some ans0Ent else if e = 8 then some ans1Ent
  else if e = 2 then some fpaqEnt else if e = 6 then some cmEnt else Option.none

def cfgOfHeader2 (h : Header.Header) (skipBlocks : Bool) : Option Cfg2 :=
  match newSeq2 h.transformType h.entropyType, entOf2 h.entropyType with
  | some ks, some ent => some ⟨32 * h.ckSize, kindTrs ks, ent, skipBlocks, some h.blockSize⟩
  | _, _ => Option.none

/-! ### whole stream -/

/-- the payloads of the blocks, in order; `obufs` = `len(oBuffer.Buf)` of every task (as many entries as
jobs), block `k` is encoded by task `k mod jobs` -/
def encodeBlocks2 (c : Cfg2) : List (List Nat) → Nat → List Nat → Except EncErr (List Bits)
  | [], _, _ => .ok []
  | b :: bs, k, obufs =>
    match encodeTaskGen2 c (obufs.getD (k % obufs.length) 0) b with
    | .error e => .error e
    | .ok p =>
      match encodeBlocks2 c bs (k + 1)
          (obufs.set (k % obufs.length) (nextObuf c (obufs.getD (k % obufs.length) 0) b)) with
      | .error e => .error e
      | .ok ps => .ok (p :: ps)

/-- the bytes at the sink after `Close` of a Writer with `jobs` tasks -/
def streamImageGen2 (h : Header.Header) (c : Cfg2) (jobs : Nat) (blocks : List (List Nat)) :
    Except EncErr (List Nat) :=
  match encodeBlocks2 c blocks 0 (List.replicate jobs 0) with
  | .error e => .error e
  | .ok ps => .ok (packBytes (streamBitsOf h ps))

/-- read a whole stream from its bytes -/
def parseImageGen2 (bytes : List Nat) : Option Header.Header × List (List Nat) × BlockGen.Stop :=
  match Header.parseHeader (ofBytes bytes) with
  | .error e => (Option.none, [], .header e)
  | .ok hr =>
    match cfgOfHeader2 hr.1 false with
    | Option.none => (some hr.1, [], .unsupported)
    | some c =>
      let r := decodeFrames c.toCfg hr.1.blockSize (parseFrames hr.1.blockSize (hr.2.length + 1) hr.2)
      (some hr.1, r.1, r.2)

end Kanzi.BlockGen2
