package main

import (
	"bufio"
	"fmt"
	"math/rand"
	"os"
	"runtime"
	"strings"
	"sync"
	"sync/atomic"
	"time"
)

// A Stream is one correspondence protocol: self-contained scenario lines ("ops"), executed on the
// real code (Exec), which also evaluates the property oracle on that scenario.
type Stream struct {
	Name     string
	Rule     string
	Gen      func(r *rand.Rand, tier string, n int, emit func(op string, tags ...string))
	Exec     func(op string, res *Result) string
	Serial   bool          // scenarios must not run concurrently (memory / timing sensitive)
	Parallel int           // max workers (0 = NumCPU)
	Watchdog time.Duration // per-scenario limit (0 = 10 min); a scenario that does not return is a hang
}

type Result struct {
	Nontrivial bool
	Tags       []string
	Violation  *Violation
	Sample     any
	Key        string // distinctness key (default: the op line)
	ModelOp    string // if set, the line given to the model instead of the scenario (e.g. scenario + recorded trace)
	Abort      bool   // the process state is no longer trustworthy (e.g. hung goroutines): stop after this scenario
}

var streams = map[string]*Stream{}

func registerStream(s *Stream) {
	streams[s.Name] = s
	register(s.Name, func(args []string) int { return runStream(s, args) })
}

func readLines(path string) []string {
	f, err := os.Open(path)
	if err != nil {
		fmt.Fprintln(os.Stderr, err)
		os.Exit(3)
	}
	defer f.Close()
	sc := bufio.NewScanner(f)
	sc.Buffer(make([]byte, 1<<20), 1<<30)
	var out []string
	for sc.Scan() {
		l := strings.TrimRight(sc.Text(), "\r\n")
		if l == "" || strings.HasPrefix(l, "#") {
			continue
		}
		out = append(out, l)
	}
	return out
}

func runStream(s *Stream, args []string) int {
	c := newCommon(s.Name)
	opsin := c.fs.String("opsin", "", "read scenario lines from this file instead of generating")
	c.fs.Parse(args)
	st := newStats(s.Rule)
	var ops []string
	var tags [][]string
	if *opsin != "" {
		ops = readLines(*opsin)
		tags = make([][]string, len(ops))
	} else {
		r := rand.New(rand.NewSource(*c.seed))
		s.Gen(r, *c.tier, *c.n, func(op string, t ...string) {
			ops = append(ops, op)
			tags = append(tags, t)
		})
	}
	outs := make([]string, len(ops))
	results := make([]Result, len(ops))
	workers := runtime.NumCPU()
	if s.Parallel > 0 && workers > s.Parallel {
		workers = s.Parallel
	}
	if s.Serial {
		workers = 1
	}
	var wg sync.WaitGroup
	var aborted int32
	executed := make([]bool, len(ops))
	idx := make(chan int, 1024)
	for w := 0; w < workers; w++ {
		wg.Add(1)
		go func() {
			defer wg.Done()
			for i := range idx {
				if atomic.LoadInt32(&aborted) != 0 {
					continue
				}
				outs[i] = safeExec(s, ops[i], &results[i])
				executed[i] = true
				if results[i].Abort {
					atomic.StoreInt32(&aborted, 1)
				}
			}
		}()
	}
	for i := range ops {
		idx <- i
	}
	close(idx)
	wg.Wait()
	if atomic.LoadInt32(&aborted) != 0 {
		// keep only the executed scenarios
		var o2, out2 []string
		var r2 []Result
		var t2 [][]string
		for i := range ops {
			if executed[i] {
				o2, out2, r2, t2 = append(o2, ops[i]), append(out2, outs[i]), append(r2, results[i]), append(t2, tags[i])
			}
		}
		st.Notes = append(st.Notes, fmt.Sprintf("aborted after %d of %d scenarios (process state no longer trustworthy)", len(o2), len(ops)))
		ops, outs, results, tags = o2, out2, r2, t2
	}

	if *c.ops != "" {
		w, cl := openOut(*c.ops)
		for i, o := range ops {
			if results[i].ModelOp != "" {
				o = results[i].ModelOp
			}
			w.WriteString(o)
			w.WriteByte('\n')
		}
		cl()
	}
	if *c.impl != "" {
		w, cl := openOut(*c.impl)
		for _, o := range outs {
			w.WriteString(o)
			w.WriteByte('\n')
		}
		cl()
	}
	seen := map[string]bool{}
	for i := range ops {
		st.Evaluations++
		for _, t := range tags[i] {
			st.hit(t)
		}
		for _, t := range results[i].Tags {
			st.hit(t)
		}
		key := results[i].Key
		if key == "" {
			key = ops[i]
		}
		if results[i].Nontrivial && !seen[key] {
			seen[key] = true
			st.Distinct++
		}
		if results[i].Sample != nil && (i%(len(ops)/4+1) == 0) {
			st.sample(results[i].Sample)
		}
		if v := results[i].Violation; v != nil {
			if v.Scenario == nil {
				v.Scenario = map[string]any{"stream": s.Name, "op": ops[i]}
			}
			st.violate(*v)
		}
	}
	st.write(*c.stats)
	return 0
}

func safeExec(s *Stream, op string, res *Result) (out string) {
	limit := s.Watchdog
	if limit == 0 {
		limit = 10 * time.Minute
	}
	type ret struct {
		out string
		res Result
	}
	ch := make(chan ret, 1)
	go func() {
		var r Result
		var o string
		func() {
			defer func() {
				if p := recover(); p != nil {
					o = "harness-panic"
					r.Violation = &Violation{Kind: "input", Site: "harness", Symptom: "panic", What: fmt.Sprint(p)}
				}
			}()
			o = s.Exec(op, &r)
		}()
		ch <- ret{o, r}
	}()
	select {
	case r := <-ch:
		*res = r.res
		return r.out
	case <-time.After(limit):
		buf := make([]byte, 1<<16)
		buf = buf[:runtime.Stack(buf, true)]
		res.Violation = &Violation{Kind: "schedule", Site: "harness.watchdog:" + s.Name, Symptom: "hang",
			What:     fmt.Sprintf("scenario did not return within %v (deadlock / endless wait in the code under test)", limit),
			Scenario: map[string]any{"stream": s.Name, "op": op, "goroutines": string(buf[:min(len(buf), 8000)])}}
		res.Abort = true
		return "hang"
	}
}
