package main

import (
	"bytes"
	"errors"
	"fmt"
	"io"
	"math/rand"

	kio "github.com/flanglet/kanzi-go/v2/io"
	"scratch/gen"
)

var errInj = errors.New("injected")

type sink struct {
	buf     bytes.Buffer
	calls   int
	failAt  int // fail the k-th call (1-based) of Write; 0 = never
	sticky  bool
	closeFail bool
	closed  int
}

func (s *sink) Write(p []byte) (int, error) {
	s.calls++
	if s.failAt != 0 && (s.calls == s.failAt || (s.sticky && s.calls > s.failAt)) {
		return 0, errInj
	}
	return s.buf.Write(p)
}
func (s *sink) Close() error {
	s.closed++
	if s.closeFail {
		return errInj
	}
	return nil
}

type src struct {
	b      []byte
	calls  int
	failAt int
	chunk  int
}

func (s *src) Read(p []byte) (int, error) {
	s.calls++
	if s.failAt != 0 && s.calls >= s.failAt {
		return 0, errInj
	}
	if len(s.b) == 0 {
		return 0, io.EOF
	}
	n := len(p)
	if s.chunk > 0 && n > s.chunk {
		n = s.chunk
	}
	if n > len(s.b) {
		n = len(s.b)
	}
	copy(p, s.b[:n])
	s.b = s.b[n:]
	return n, nil
}
func (s *src) Close() error { return nil }

func runW(data []byte, jobs uint, bs uint, failAt int, sticky bool, wsz int) (calls int, errs []error, out []byte, closedOK bool, panicked any) {
	defer func() {
		if r := recover(); r != nil {
			panicked = r
		}
	}()
	s := &sink{failAt: failAt, sticky: sticky}
	w, err := kio.NewWriter(s, "NONE", "NONE", bs, jobs, 32, 0, false)
	if err != nil {
		panic(err)
	}
	for off := 0; off < len(data); off += wsz {
		end := min(off+wsz, len(data))
		if _, err := w.Write(data[off:end]); err != nil {
			errs = append(errs, err)
		}
	}
	err = w.Close()
	if err != nil {
		errs = append(errs, err)
	} else {
		closedOK = true
	}
	return s.calls, errs, s.buf.Bytes(), closedOK, nil
}

func main() {
	r := rand.New(rand.NewSource(3))
	data := gen.Random(r, 3*300*1024+17) // > 256K bitstream buffer so multiple sink writes
	for _, jobs := range []uint{1, 3} {
		calls, errs, ref, ok, p := runW(data, jobs, 64*1024, 0, false, 100000)
		fmt.Println("jobs", jobs, "fault-free sink calls", calls, errs, ok, p, len(ref))
		for _, sticky := range []bool{true, false} {
			for k := 1; k <= calls; k++ {
				_, errs, out, ok, p := runW(data, jobs, 64*1024, k, sticky, 100000)
				if p != nil {
					fmt.Println("  PANIC k", k, p)
					continue
				}
				if len(errs) == 0 {
					fmt.Printf("  SWALLOWED sticky=%v k=%d closeOK=%v outEqRef=%v\n", sticky, k, ok, bytes.Equal(out, ref))
				} else if ok && !bytes.Equal(out, ref) {
					fmt.Printf("  CLOSE-OK-BUT-BYTES-MISSING sticky=%v k=%d errs=%d out=%d ref=%d\n", sticky, k, len(errs), len(out), len(ref))
				}
			}
		}
	}
	// reader side
	var buf sinkBuf
	w, _ := kio.NewWriter(&buf, "NONE", "NONE", 64*1024, 1, 32, 0, false)
	w.Write(data)
	w.Close()
	comp := buf.Bytes()
	for _, jobs := range []uint{1, 3} {
		for _, chunk := range []int{0, 100000} {
			s := &src{b: comp, chunk: chunk}
			rd, _ := kio.NewReader(s, jobs)
			d, err := io.ReadAll(rd)
			calls := s.calls
			fmt.Println("reader jobs", jobs, "chunk", chunk, "calls", calls, err, bytes.Equal(d, data))
			for k := 1; k <= calls; k++ {
				s := &src{b: comp, chunk: chunk, failAt: k}
				rd, _ := kio.NewReader(s, jobs)
				d, err := func() (d []byte, err error) {
					defer func() {
						if r := recover(); r != nil {
							err = fmt.Errorf("PANIC %v", r)
						}
					}()
					return io.ReadAll(rd)
				}()
				if err == nil {
					fmt.Printf("  READ-SWALLOWED k=%d len=%d full=%v\n", k, len(d), bytes.Equal(d, data))
				} else if !errors.Is(err, errInj) && k < calls {
					fmt.Printf("  k=%d err=%v\n", k, err)
				}
			}
		}
	}
}

type sinkBuf struct{ bytes.Buffer }

func (*sinkBuf) Close() error { return nil }
