/-
Proofs for the order-0 range coder (property C12, slice range): the carry-less renormalisation
(termination, range > 0), one encode / decode step, the payload of a chunk.
Core Lean only.
-/
import Kanzi.Model.Range
import Kanzi.Proofs.EntSmall

namespace Kanzi.Range
open Kanzi.Bits Kanzi.EntSmall

/-! ### A. the bit tests of the loop as arithmetic -/

theorem rangeMask_eq : rangeMask = (2 ^ 28 - 1) <<< 32 := by decide

theorem testBit_rangeMask (i : Nat) : rangeMask.testBit i = (decide (32 ≤ i) && decide (i < 60)) := by
  rw [rangeMask_eq, Nat.testBit_shiftLeft, Nat.testBit_two_pow_sub_one]
  by_cases h1 : 32 ≤ i <;> by_cases h2 : i < 60 <;> simp [h1, h2] <;> omega

/-- the masked xor is zero iff bits 32..59 agree -/
theorem xor_and_mask_eq_zero (a b : Nat) :
    (a ^^^ b) &&& rangeMask = 0 ↔ (a / 2 ^ 32) % 2 ^ 28 = (b / 2 ^ 32) % 2 ^ 28 := by
  constructor
  · intro h
    apply Nat.eq_of_testBit_eq
    intro i
    rw [Nat.testBit_mod_two_pow, Nat.testBit_mod_two_pow, Nat.testBit_div_two_pow, Nat.testBit_div_two_pow]
    by_cases hi : i < 28
    · have := congrArg (fun x => x.testBit (32 + i)) h
      simp only [Nat.testBit_and, Nat.testBit_xor, testBit_rangeMask, Nat.zero_testBit] at this
      have h1 : decide (32 ≤ 32 + i) = true := by simp
      have h2 : decide (32 + i < 60) = true := by simp; omega
      rw [h1, h2] at this
      simp only [Bool.and_self, Bool.and_true] at this
      have h3 : i + 32 = 32 + i := by omega
      rw [h3]
      simp [hi]
      revert this
      cases a.testBit (32 + i) <;> cases b.testBit (32 + i) <;> simp
    · simp [hi]
  · intro h
    apply Nat.eq_of_testBit_eq
    intro i
    simp only [Nat.testBit_and, Nat.testBit_xor, testBit_rangeMask, Nat.zero_testBit]
    by_cases h1 : 32 ≤ i
    · by_cases h2 : i < 60
      · have := congrArg (fun x => x.testBit (i - 32)) h
        simp only [Nat.testBit_mod_two_pow, Nat.testBit_div_two_pow] at this
        have h3 : i - 32 + 32 = i := by omega
        rw [h3] at this
        have h4 : decide (i - 32 < 28) = true := by simp; omega
        rw [h4] at this
        simp only [Bool.true_and] at this
        rw [this]
        simp
      · simp [h2]
    · simp [h1]

theorem topDiffers_iff (low rng : Nat) :
    topDiffers low rng = true ↔ (low / 2 ^ 32) % 2 ^ 28 ≠ (((low + rng) % 2 ^ 64) / 2 ^ 32) % 2 ^ 28 := by
  unfold topDiffers
  rw [bne_iff_ne, Ne, xor_and_mask_eq_zero]

theorem negLowBottom_eq (low : Nat) : negLowBottom low = (2 ^ 16 - low % 2 ^ 16) % 2 ^ 16 := by
  unfold negLowBottom bottomRange
  have : (0xFFFF : Nat) = 2 ^ 16 - 1 := by decide
  rw [this, Nat.and_two_pow_sub_one_eq_mod]
  omega

/-! ### B. the invariant of `(low, rng)` and one round of the loop -/

/-- invariant of the encoder / decoder registers (`L = low mod 2^60` is the live part of `low`):
    the interval `[L, L+rng)` is not empty and does not leave the 60-bit window; it may touch the
    upper end `2^60` only when `L` is not in the lowest 2^32-block. -/
structure Inv (low rng : Nat) : Prop where
  lt64 : low < 2 ^ 64
  pos : 0 < rng
  le : low % 2 ^ 60 + rng ≤ 2 ^ 60
  top : low % 2 ^ 60 + rng = 2 ^ 60 → 2 ^ 32 ≤ low % 2 ^ 60

theorem inv_init : Inv 0 topRange := ⟨by decide, by decide, by decide, by decide⟩

/-- the loop stops (`break`) only with `rng > BOTTOM` -/
theorem normRng_none (low rng : Nat) (h : normRng low rng = none) : bottomRange < rng := by
  unfold normRng at h
  split at h
  · split at h
    · assumption
    · cases h
  · cases h

theorem shl28 (x : Nat) : (x <<< 28) % 2 ^ 64 = (x % 2 ^ 36) * 2 ^ 28 := by
  rw [Nat.shiftLeft_eq]; omega

/-- one round that shifts: the new registers satisfy the invariant again, the range is at least
    2^28 (so positive), and the live part of `low` loses exactly its top 28 bits -/
theorem norm_round (low rng r : Nat) (hi : Inv low rng) (h : normRng low rng = some r) :
    Inv ((low <<< 28) % 2 ^ 64) ((r <<< 28) % 2 ^ 64) ∧
    (r <<< 28) % 2 ^ 64 = r * 2 ^ 28 ∧ 0 < r ∧ r ≤ rng ∧ r < 2 ^ 32 ∧
    ((low <<< 28) % 2 ^ 64) % 2 ^ 60 = (low % 2 ^ 32) * 2 ^ 28 ∧
    low % 2 ^ 32 + r ≤ 2 ^ 32 ∧
    (2 ^ 28 ≤ rng → r = rng) := by
  obtain ⟨h64, hpos, hle, htop⟩ := hi
  unfold normRng at h
  rw [shl28, shl28]
  by_cases ht : topDiffers low rng = true
  · rw [if_pos ht] at h
    have hd := (topDiffers_iff low rng).mp ht
    by_cases hb : rng > bottomRange
    · rw [if_pos hb] at h; cases h
    · rw [if_neg hb] at h
      injection h with h
      rw [negLowBottom_eq] at h
      subst h
      unfold bottomRange at hb
      refine ⟨⟨?_, ?_, ?_, ?_⟩, ?_, ?_, ?_, ?_, ?_, ?_, ?_⟩ <;> omega
  · rw [if_neg ht] at h
    injection h with h
    subst h
    have hd : (low / 2 ^ 32) % 2 ^ 28 = (((low + rng) % 2 ^ 64) / 2 ^ 32) % 2 ^ 28 := by
      exact Decidable.byContradiction (fun hc => ht ((topDiffers_iff low rng).mpr hc))
    refine ⟨⟨?_, ?_, ?_, ?_⟩, ?_, ?_, ?_, ?_, ?_, ?_, ?_⟩ <;> omega

/-! ### C. the 60-bit window on the encoder's future output -/

theorem bitsNat_take_add (R : Bits) (n k : Nat) (h : n + k ≤ R.length) :
    bitsNat (R.take (n + k)) = bitsNat (R.take n) * 2 ^ k + bitsNat ((R.drop n).take k) := by
  rw [List.take_add, bitsNat_append, List.length_take, List.length_drop, Nat.min_eq_left (by omega)]

theorem bitsNat_take_lt (R : Bits) (k : Nat) : bitsNat (R.take k) < 2 ^ k := by
  have h := bitsNat_lt (R.take k)
  have h2 : 2 ^ (R.take k).length ≤ 2 ^ k := Nat.pow_le_pow_right (by decide) (List.length_take_le k R)
  omega

/-- `R` is what the encoder still has to write from state `(low, rng)` on (renormalisation words
    and the final 60-bit flush).  `Win`: its first 60 bits, as a number, lie in `[L, L+rng)`. -/
def Win (low rng : Nat) (R : Bits) : Prop :=
  60 ≤ R.length ∧ low % 2 ^ 60 ≤ bitsNat (R.take 60) ∧ bitsNat (R.take 60) < low % 2 ^ 60 + rng

/-- the decoder's `code` register is the 60-bit window on `R`, up to the same stale bits as `low`:
    `code - low` (64-bit) is the offset of the window from `L` -/
def DecInv (low code : Nat) (R : Bits) : Prop :=
  code < 2 ^ 64 ∧ (code + 2 ^ 64 - low) % 2 ^ 64 + low % 2 ^ 60 = bitsNat (R.take 60)

theorem natBits28_val (low : Nat) : bitsNat (natBits (low >>> 32) 28) = (low / 2 ^ 32) % 2 ^ 28 := by
  rw [bitsNat_natBits, Nat.shiftRight_eq_div_pow]

theorem take60_cons (w R : Bits) (hw : w.length = 28) (hR : 32 ≤ R.length) :
    bitsNat ((w ++ R).take 60) = bitsNat w * 2 ^ 32 + bitsNat (R.take 32) := by
  have h : (60 : Nat) = 28 + 32 := rfl
  rw [h, bitsNat_take_add _ _ _ (by rw [List.length_append]; omega)]
  have h1 : (w ++ R).take 28 = w := by rw [← hw]; exact List.take_left
  have h2 : (w ++ R).drop 28 = R := by rw [← hw]; exact List.drop_left
  rw [h1, h2]

theorem take60_split (R : Bits) (hR : 60 ≤ R.length) :
    bitsNat (R.take 60) = bitsNat (R.take 32) * 2 ^ 28 + bitsNat ((R.drop 32).take 28) := by
  have h : (60 : Nat) = 32 + 28 := rfl
  rw [h, bitsNat_take_add _ _ _ (by omega)]

/-- a shifting round seen from the window: if the window of the rest lies in the new interval, the
    window including the written word lies in the old one (nested intervals; the truncation of the
    range only shrinks the interval) -/
theorem win_round (low rng r : Nat) (R : Bits) (hi : Inv low rng) (h : normRng low rng = some r)
    (hw : Win ((low <<< 28) % 2 ^ 64) ((r <<< 28) % 2 ^ 64) R) :
    Win low rng (natBits (low >>> 32) 28 ++ R) := by
  obtain ⟨hinv, h2, h3, h4, h5, h6, h7, _⟩ := norm_round low rng r hi h
  obtain ⟨w1, w2, w3⟩ := hw
  rw [h6] at w2 w3
  rw [h2] at w3
  rw [take60_split R w1] at w2 w3
  clear hinv
  have hz := bitsNat_take_lt (R.drop 32) 28
  have hy := bitsNat_take_lt R 32
  refine ⟨by rw [List.length_append]; omega, ?_, ?_⟩
  · rw [take60_cons _ _ (natBits_length _ _) (by omega), natBits28_val]
    omega
  · rw [take60_cons _ _ (natBits_length _ _) (by omega), natBits28_val]
    have e : low % 2 ^ 60 = low / 2 ^ 32 % 2 ^ 28 * 2 ^ 32 + low % 2 ^ 32 := by omega
    have y_lt : bitsNat (List.take 32 R) < low % 2 ^ 32 + r := by omega
    rw [e]
    clear w3 w2 e h2 h6
    omega

theorem shl28_or (code x : Nat) (hx : x < 2 ^ 28) :
    ((code <<< 28) % 2 ^ 64) ||| x = (code % 2 ^ 36) * 2 ^ 28 + x := by
  rw [shl28, ← Nat.shiftLeft_eq, Nat.or_comm, or_shiftLeft _ _ _ hx]
  omega

/-- the same round on the decoder side: it reads exactly 28 bits and its `code` is again the window -/
theorem dec_round (low rng r code : Nat) (R rest : Bits) (hi : Inv low rng) (h : normRng low rng = some r)
    (hR : 60 ≤ R.length) (hd : DecInv low code (natBits (low >>> 32) 28 ++ R)) :
    readBits 28 ((natBits (low >>> 32) 28 ++ R).drop 60 ++ rest)
      = some (bitsNat ((R.drop 32).take 28), R.drop 60 ++ rest) ∧
    DecInv ((low <<< 28) % 2 ^ 64) (((code <<< 28) % 2 ^ 64) ||| bitsNat ((R.drop 32).take 28)) R := by
  obtain ⟨_, h2, h3, h4, h5, h6, h7, _⟩ := norm_round low rng r hi h
  have hdrop : (natBits (low >>> 32) 28 ++ R).drop 60 = R.drop 32 := by
    have h : (60 : Nat) = 28 + 32 := rfl
    rw [h, ← List.drop_drop]
    have : (natBits (low >>> 32) 28 ++ R).drop 28 = R := by
      have hl := natBits_length (low >>> 32) 28
      rw [← hl]; exact List.drop_left
    rw [this]
  constructor
  · rw [hdrop]
    unfold readBits
    rw [if_pos (by rw [List.length_append, List.length_drop]; omega)]
    have h1 : (R.drop 32 ++ rest).take 28 = (R.drop 32).take 28 :=
      List.take_append_of_le_length (by rw [List.length_drop]; omega)
    have h2 : (R.drop 32 ++ rest).drop 28 = R.drop 60 ++ rest := by
      rw [List.drop_append_of_le_length (by rw [List.length_drop]; omega), List.drop_drop]
    rw [h1, h2]
  · obtain ⟨d1, d2⟩ := hd
    rw [take60_cons _ _ (natBits_length _ _) (by omega), natBits28_val] at d2
    have hz := bitsNat_take_lt (R.drop 32) 28
    have hy := bitsNat_take_lt R 32
    have h64 := hi.lt64
    unfold DecInv
    rw [shl28_or _ _ hz, h6, take60_split R hR, shl28]
    constructor <;> omega

/-! ### D. the whole loop: termination, range > 0, encoder / decoder in step -/

/-- enough fuel for the loop started with range `rng`: three evaluations of the loop head when
    `rng < 2^28`, two when `rng < 2^56`, one otherwise -/
def FuelOk (rng fuel : Nat) : Prop := (rng < 2 ^ 28 → 3 ≤ fuel) ∧ (rng < 2 ^ 56 → 2 ≤ fuel) ∧ 1 ≤ fuel

theorem fuelOk_round (low rng r fuel : Nat) (hi : Inv low rng) (h : normRng low rng = some r)
    (hf : FuelOk rng (fuel + 1)) : FuelOk ((r <<< 28) % 2 ^ 64) fuel := by
  obtain ⟨_, h2, h3, h4, h5, _, _, h8⟩ := norm_round low rng r hi h
  obtain ⟨f1, f2, _⟩ := hf
  rw [h2]
  refine ⟨?_, ?_, ?_⟩
  · intro hc; omega
  · intro hc
    have : rng < 2 ^ 28 := by
      apply Decidable.byContradiction
      intro hn
      have := h8 (by omega)
      omega
    have := f1 this
    omega
  · have : rng < 2 ^ 56 := by
      apply Decidable.byContradiction
      intro hn
      have := h8 (by omega)
      omega
    have := f2 this
    omega

/-- **termination.**  From a state satisfying the invariant the loop leaves through its `break`
    within the fuel bound: more fuel changes nothing. -/
theorem normLoop_fuel : ∀ (fuel k low rng : Nat), Inv low rng → FuelOk rng fuel →
    normLoop (fuel + k) low rng = normLoop fuel low rng := by
  intro fuel
  induction fuel with
  | zero => intro k low rng _ hf; have := hf.2.2; omega
  | succ fuel ih =>
    intro k low rng hi hf
    have hk : fuel + 1 + k = (fuel + k) + 1 := by omega
    rw [hk]
    simp only [normLoop]
    cases hn : normRng low rng with
    | none => rfl
    | some r =>
      simp only []
      have hi' := (norm_round low rng r hi hn).1
      rw [ih k _ _ hi' (fuelOk_round low rng r fuel hi hn hf)]

theorem decNorm_fuel : ∀ (fuel k low rng code : Nat) (bs : Bits), Inv low rng → FuelOk rng fuel →
    decNorm (fuel + k) low rng code bs = decNorm fuel low rng code bs := by
  intro fuel
  induction fuel with
  | zero => intro k low rng _ _ _ hf; have := hf.2.2; omega
  | succ fuel ih =>
    intro k low rng code bs hi hf
    have hk : fuel + 1 + k = (fuel + k) + 1 := by omega
    rw [hk]
    simp only [decNorm]
    cases hn : normRng low rng with
    | none => rfl
    | some r =>
      simp only []
      have hi' := (norm_round low rng r hi hn).1
      cases hr : readBits 28 bs with
      | none => rfl
      | some p =>
        simp only []
        rw [ih k _ _ _ _ hi' (fuelOk_round low rng r fuel hi hn hf)]

/-- everything about one run of the loop -/
theorem normLoop_spec : ∀ (fuel low rng : Nat), Inv low rng → FuelOk rng fuel →
    Inv (normLoop fuel low rng).2.1 (normLoop fuel low rng).2.2 ∧
    bottomRange < (normLoop fuel low rng).2.2 ∧
    normRng (normLoop fuel low rng).2.1 (normLoop fuel low rng).2.2 = none ∧
    (normLoop fuel low rng).1.length ≤ 56 ∧
    (2 ^ 28 ≤ rng → (normLoop fuel low rng).1.length ≤ 28) ∧
    (2 ^ 56 ≤ rng → (normLoop fuel low rng).1.length = 0) ∧
    (∀ R, Win (normLoop fuel low rng).2.1 (normLoop fuel low rng).2.2 R →
        Win low rng ((normLoop fuel low rng).1 ++ R)) ∧
    (∀ (R : Bits) (code : Nat) (rest : Bits), 60 ≤ R.length →
        DecInv low code ((normLoop fuel low rng).1 ++ R) →
        ∃ code', decNorm fuel low rng code (((normLoop fuel low rng).1 ++ R).drop 60 ++ rest)
            = some (((normLoop fuel low rng).2.1, (normLoop fuel low rng).2.2, code'), R.drop 60 ++ rest) ∧
          DecInv (normLoop fuel low rng).2.1 code' R) := by
  intro fuel
  induction fuel with
  | zero => intro low rng _ hf; have := hf.2.2; omega
  | succ fuel ih =>
    intro low rng hi hf
    simp only [normLoop, decNorm]
    cases hn : normRng low rng with
    | none =>
      simp only []
      refine ⟨hi, normRng_none low rng hn, hn, by simp, by simp, by simp, ?_, ?_⟩
      · intro R hw; simpa using hw
      · intro R code rest hR hd
        exact ⟨code, by simp, by simpa using hd⟩
    | some r =>
      simp only []
      obtain ⟨hi', h2, h3, h4, h5, h6, h7, h8⟩ := norm_round low rng r hi hn
      have hf' := fuelOk_round low rng r fuel hi hn hf
      obtain ⟨i1, i2, i3, i4, i5, i5b, i6, i7⟩ := ih _ _ hi' hf'
      generalize normLoop fuel ((low <<< 28) % 2 ^ 64) ((r <<< 28) % 2 ^ 64) = t at *
      refine ⟨i1, i2, i3, ?_, ?_, ?_, ?_, ?_⟩
      · rw [List.length_append, natBits_length]
        have := i5 (by rw [h2]; omega)
        omega
      · intro hc
        have := h8 hc
        rw [List.length_append, natBits_length, i5b (by rw [h2]; omega)]
        exact Nat.le_refl _
      · intro hc
        have := h8 (by omega)
        omega
      · intro R hw
        rw [List.append_assoc]
        exact win_round low rng r _ hi hn (i6 R hw)
      · intro R code rest hR hd
        rw [List.append_assoc] at hd ⊢
        obtain ⟨d1, d2⟩ := dec_round low rng r code (t.1 ++ R) rest hi hn
          (by rw [List.length_append]; omega) hd
        rw [d1]
        simp only []
        exact i7 R _ rest hR d2

/-- window + decoder invariant: the decoder's `code` lies in `[low, low+rng)` (64-bit difference) -/
theorem code_in_range (low rng code : Nat) (R : Bits) (hw : Win low rng R) (hd : DecInv low code R) :
    (code + 2 ^ 64 - low) % 2 ^ 64 < rng := by
  obtain ⟨_, w2, w3⟩ := hw
  obtain ⟨_, d2⟩ := hd
  omega

/-! ### E. one symbol: `encodeByte` / `decodeByte` -/

theorem fuelOk_normFuel (rng : Nat) : FuelOk rng normFuel := by
  unfold FuelOk normFuel; omega

/-- the arithmetic part of a step (before the loop): the sub-interval of the symbol -/
theorem step_pre (low rng shift c fr : Nat) (hi : Inv low rng) (hb : bottomRange < rng)
    (hs : shift ≤ 16) (hf : 0 < fr) (hc : c + fr ≤ 2 ^ shift) :
    0 < rng >>> shift ∧
    (low + c * (rng >>> shift)) % 2 ^ 64 = low + c * (rng >>> shift) ∧
    ((rng >>> shift) * fr) % 2 ^ 64 = (rng >>> shift) * fr ∧
    (low + c * (rng >>> shift)) % 2 ^ 60 = low % 2 ^ 60 + c * (rng >>> shift) ∧
    c * (rng >>> shift) + (rng >>> shift) * fr ≤ rng ∧
    Inv ((low + c * (rng >>> shift)) % 2 ^ 64) (((rng >>> shift) * fr) % 2 ^ 64) := by
  obtain ⟨h64, hpos, hle, htop⟩ := hi
  unfold bottomRange at hb
  rw [Nat.shiftRight_eq_div_pow]
  have hp : 0 < 2 ^ shift := Nat.pow_pos (by decide)
  have hp16 : 2 ^ shift ≤ 2 ^ 16 := Nat.pow_le_pow_right (by decide) hs
  have hr : 0 < rng / 2 ^ shift := Nat.div_pos (by omega) hp
  have h1 : 2 ^ shift * (rng / 2 ^ shift) ≤ rng := Nat.mul_div_le rng (2 ^ shift)
  have h2 : (c + fr) * (rng / 2 ^ shift) ≤ 2 ^ shift * (rng / 2 ^ shift) := Nat.mul_le_mul_right _ hc
  rw [Nat.add_mul, Nat.mul_comm fr] at h2
  have h5 : 0 < (rng / 2 ^ shift) * fr := Nat.mul_pos hr hf
  generalize c * (rng / 2 ^ shift) = X at *
  generalize (rng / 2 ^ shift) * fr = Y at *
  have e1 : (low + X) % 2 ^ 64 = low + X := by omega
  have e2 : Y % 2 ^ 64 = Y := by omega
  have e3 : (low + X) % 2 ^ 60 = low % 2 ^ 60 + X := by omega
  refine ⟨hr, e1, e2, e3, by omega, ?_⟩
  rw [e1, e2]
  refine ⟨by omega, h5, by omega, ?_⟩
  rw [e3]
  intro h
  omega

/-- what the tables must provide for symbol `s` (they do: `symTab_mk` in RangeChunk) -/
structure SymTab (cum f2s : Array Nat) (shift s : Nat) : Prop where
  pos : cum.getD s 0 < cum.getD (s + 1) 0
  le : cum.getD (s + 1) 0 ≤ 2 ^ shift
  f2s : ∀ j, cum.getD s 0 ≤ j → j < cum.getD (s + 1) 0 → j < f2s.size ∧ f2s.getD j 0 = s

/-- **one step.**  Encoder and decoder start from the same `(low, rng)` (invariant, `rng > BOTTOM`).
    The encoder writes `n.1` (0, 28 or 56 bits) and moves to `(n.2.1, n.2.2)`, which satisfies the
    invariant with `rng > BOTTOM` again.  Whatever the encoder writes afterwards (`R`, with its
    window in the new interval): the window of `n.1 ++ R` lies in the old interval, and the decoder
    whose `code` is the window on `n.1 ++ R` finds the slot of `s`, returns `s`, reaches the same
    `(low, rng)`, has consumed exactly `|n.1|` bits and its `code` is the window on `R`. -/
theorem step_spec (cum f2s : Array Nat) (shift low rng s : Nat) (hi : Inv low rng) (hb : bottomRange < rng)
    (hs : shift ≤ 16) (ht : SymTab cum f2s shift s) :
    Inv (encStep shift low rng (cum.getD s 0) (cum.getD (s + 1) 0 - cum.getD s 0)).2.1
        (encStep shift low rng (cum.getD s 0) (cum.getD (s + 1) 0 - cum.getD s 0)).2.2 ∧
    bottomRange < (encStep shift low rng (cum.getD s 0) (cum.getD (s + 1) 0 - cum.getD s 0)).2.2 ∧
    (encStep shift low rng (cum.getD s 0) (cum.getD (s + 1) 0 - cum.getD s 0)).1.length ≤ 56 ∧
    ∀ (R : Bits), Win (encStep shift low rng (cum.getD s 0) (cum.getD (s + 1) 0 - cum.getD s 0)).2.1
        (encStep shift low rng (cum.getD s 0) (cum.getD (s + 1) 0 - cum.getD s 0)).2.2 R →
      Win low rng ((encStep shift low rng (cum.getD s 0) (cum.getD (s + 1) 0 - cum.getD s 0)).1 ++ R) ∧
      ∀ (code : Nat) (rest : Bits),
        DecInv low code ((encStep shift low rng (cum.getD s 0) (cum.getD (s + 1) 0 - cum.getD s 0)).1 ++ R) →
        ∃ code', decStep cum f2s shift low rng code
            (((encStep shift low rng (cum.getD s 0) (cum.getD (s + 1) 0 - cum.getD s 0)).1 ++ R).drop 60 ++ rest)
          = some ((s, (encStep shift low rng (cum.getD s 0) (cum.getD (s + 1) 0 - cum.getD s 0)).2.1,
                      (encStep shift low rng (cum.getD s 0) (cum.getD (s + 1) 0 - cum.getD s 0)).2.2, code'),
                  R.drop 60 ++ rest) ∧
          DecInv (encStep shift low rng (cum.getD s 0) (cum.getD (s + 1) 0 - cum.getD s 0)).2.1 code' R := by
  obtain ⟨tpos, tle, tf2s⟩ := ht
  have hfr : 0 < cum.getD (s + 1) 0 - cum.getD s 0 := by omega
  have hcs : cum.getD s 0 + (cum.getD (s + 1) 0 - cum.getD s 0) ≤ 2 ^ shift := by omega
  obtain ⟨p1, p2, p3, p4, p5, p6⟩ := step_pre low rng shift _ _ hi hb hs hfr hcs
  obtain ⟨n1, n2, _, n4, _, _, n6, n7⟩ := normLoop_spec normFuel _ _ p6 (fuelOk_normFuel _)
  unfold encStep
  generalize hc : cum.getD s 0 = c at *
  generalize hfq : cum.getD (s + 1) 0 - c = fr at *
  generalize hr : rng >>> shift = r at *
  generalize hn : normLoop normFuel ((low + c * r) % 2 ^ 64) ((r * fr) % 2 ^ 64) = n at *
  refine ⟨n1, n2, n4, ?_⟩
  intro R hw
  have hw1 := n6 R hw
  -- the window lies in the sub-interval of `s`, hence in the old interval
  obtain ⟨w1, w2, w3⟩ := hw1
  rw [p2, p4] at w2
  rw [p2, p3, p4] at w3
  have hwin : Win low rng (n.1 ++ R) := ⟨w1, by omega, by omega⟩
  refine ⟨hwin, ?_⟩
  intro code rest hd
  obtain ⟨d1, d2⟩ := hd
  -- the slot
  have hD : (code + 2 ^ 64 - low) % 2 ^ 64 = bitsNat ((n.1 ++ R).take 60) - low % 2 ^ 60 := by omega
  have hlo : c * r ≤ (code + 2 ^ 64 - low) % 2 ^ 64 := by omega
  have hhi : (code + 2 ^ 64 - low) % 2 ^ 64 < (c + fr) * r := by
    rw [Nat.add_mul, Nat.mul_comm fr]; omega
  have hslot1 : c ≤ slot shift low rng code := by
    unfold slot; rw [hr]; exact (Nat.le_div_iff_mul_le p1).mpr hlo
  have hslot2 : slot shift low rng code < c + fr := by
    unfold slot; rw [hr]; exact (Nat.div_lt_iff_lt_mul p1).mpr hhi
  obtain ⟨t1, t2⟩ := tf2s _ hslot1 (by omega)
  -- the decoder is at the same pre-loop state, with the same window
  have hd1 : DecInv ((low + c * r) % 2 ^ 64) code (n.1 ++ R) := by
    refine ⟨d1, ?_⟩
    rw [p2, p4]
    have := hi.lt64
    omega
  obtain ⟨code', e1, e2⟩ := n7 R code rest hw.1 hd1
  refine ⟨code', ?_, e2⟩
  unfold decStep
  rw [hr, if_neg (by omega), if_neg (by omega), t2]
  unfold decStepSym
  rw [hr, hc]
  have hfq' : cum.getD (s + 1) 0 - c = fr := hfq
  rw [hfq', e1]

/-! ### F. the payload of a chunk: all symbols, then the flush -/

theorem win_flush (low rng : Nat) (hpos : 0 < rng) : Win low rng (natBits low 60) := by
  have hl := natBits_length low 60
  have ht : (natBits low 60).take 60 = natBits low 60 := List.take_of_length_le (by omega)
  refine ⟨by omega, ?_, ?_⟩
  · rw [ht, bitsNat_natBits]; exact Nat.le_refl _
  · rw [ht, bitsNat_natBits]; omega

/-- from any state satisfying the invariant: the window of everything the encoder still writes
    lies in the current interval, and a decoder in step with it returns exactly the remaining
    symbols and stops exactly where the encoder's output ends -/
theorem tail_rt (cum f2s : Array Nat) (shift : Nat) (hs : shift ≤ 16) :
    ∀ (syms : List Nat) (low rng : Nat), (∀ s ∈ syms, SymTab cum f2s shift s) →
      Inv low rng → bottomRange < rng →
      Win low rng (encTail cum shift syms low rng) ∧
      ∀ (code : Nat) (rest : Bits), DecInv low code (encTail cum shift syms low rng) →
        decSyms cum f2s shift syms.length low rng code ((encTail cum shift syms low rng).drop 60 ++ rest)
          = some (syms, rest) := by
  intro syms
  induction syms with
  | nil =>
    intro low rng _ hi _
    refine ⟨win_flush low rng hi.pos, ?_⟩
    intro code rest _
    have hl := natBits_length low 60
    simp only [encTail, List.length_nil, decSyms]
    rw [List.drop_of_length_le (by omega), List.nil_append]
  | cons s ss ih =>
    intro low rng ht hi hb
    obtain ⟨n1, n2, _, n4⟩ := step_spec cum f2s shift low rng s hi hb hs (ht s List.mem_cons_self)
    simp only [encTail, List.length_cons, decSyms]
    generalize encStep shift low rng (cum.getD s 0) (cum.getD (s + 1) 0 - cum.getD s 0) = n at *
    obtain ⟨w, d⟩ := ih n.2.1 n.2.2 (fun x hx => ht x (List.mem_cons_of_mem _ hx)) n1 n2
    obtain ⟨hw, hdec⟩ := n4 _ w
    refine ⟨hw, ?_⟩
    intro code rest hd
    obtain ⟨code', e1, e2⟩ := hdec code rest hd
    rw [e1]
    simp only []
    rw [d code' rest e2]

/-- the decoder's start: `code = ReadBits(60)` is the window on the whole payload -/
theorem payload_rt (cum f2s : Array Nat) (shift : Nat) (hs : shift ≤ 16) (syms : List Nat)
    (ht : ∀ s ∈ syms, SymTab cum f2s shift s) (rest : Bits) :
    ∃ code r, readBits 60 (encTail cum shift syms 0 topRange ++ rest) = some (code, r) ∧
      decSyms cum f2s shift syms.length 0 topRange code r = some (syms, rest) := by
  obtain ⟨w, d⟩ := tail_rt cum f2s shift hs syms 0 topRange ht inv_init (by decide)
  refine ⟨bitsNat ((encTail cum shift syms 0 topRange).take 60),
    (encTail cum shift syms 0 topRange).drop 60 ++ rest, ?_, ?_⟩
  · unfold readBits
    rw [if_pos (by rw [List.length_append]; have := w.1; omega),
      List.take_append_of_le_length w.1, List.drop_append_of_le_length w.1]
  · apply d
    have hlt := bitsNat_take_lt (encTail cum shift syms 0 topRange) 60
    refine ⟨by omega, ?_⟩
    omega

end Kanzi.Range
