/-
C03 (the decoder is total) — the Huffman decoder (`HuffmanDecoder` of v2/entropy/HuffmanCodec.go:
`Read`, `decodeV6` / `decodeChunkV6` / `readState`, the legacy `decodeV5` / `decodeChunkV5`,
`readLengths`, `buildDecodingTable`, `generateCanonicalCodes`; `DecodeAlphabet`, `ReadVarInt`,
`ExpGolombDecoder.DecodeByte`) on ARBITRARY input and from ANY state of the decoder object.
Property theorems only; proofs in `Kanzi/Proofs/HufDecTotal.lean` and `Kanzi/Proofs/HufDecSafe.lean`.  The model `Kanzi/Model/HufDec.lean`
is tied to /repo by the `hufdec` stream: the real decoder on forged inputs (mutated encodings,
truncations, crafted code lengths and sub-stream sizes, random bytes, two `Read`s, versions 1..5)
must end every `Read` exactly as the model says — same bytes, same error, same class of panic,
same `len(this.buffer)`.

Vocabulary.  `read p s bs count` = `Read(make([]byte, count))` of a decoder built with parameters `p`
(`mkParams` = the constructors), whose object state is `s` (`fresh` for a new decoder; only
`this.buffer` is ever read before being written, see the model), on the input bits `bs`.  Its `cls`
is `ret n err`, or `stop eos` (the input bitstream ran out), `stop overrun` (`ReadArray` asked for
more bits than its destination holds: panics inside the bitstream), `stop fault` (index / slice
bounds in the codec), or `stop fuel` (a loop of the model ran out of fuel).  Every decoding task of
kanzi runs under a deferred `recover`: `stop eos` / `overrun` / `fault` are block errors, i.e.
observations; a violation of C03 is an unbounded loop or an allocation unrelated to the declared sizes.

FINDING (reported, `design-probes/go/hufv5alloc`; repaired in /repo 97146d4): for a bitstream version
below 6 (a 4-bit field of the stream header) `decodeChunkV5` sized `this.buffer` from the VarInt it
had just read: `sz + sz>>3` bytes with `sz = (szBits+7)>>3`, up to 603 979 773 bytes, BEFORE trying to
read the payload — an 8-byte input made a `Read` of ONE byte allocate 576 MiB.  Since the repair
`sz > max(2*count, 1024)` is rejected with "incorrect chunk size" before any allocation
(`C03_huf_v5_forged_size_rejected`), and the model follows: `C03_huf_v5_alloc_bound`,
`C03_huf_alloc_bound`.  Version 6 never depended on the stream for its buffer: `C03_huf_v6_alloc`.
-/
import Kanzi.Model.HufDec
import Kanzi.Proofs.HufDecTotal
import Kanzi.Proofs.HufDecSafe

namespace Kanzi.C03
open Kanzi.Bits Kanzi.EntSmall Kanzi.HufDec

/-- the constructors only produce a chunk size in `[1024, 16384]` (so the chunk loop advances), and
record the bitstream version of the context (6 without context) -/
theorem C03_huf_params (c v : Option Nat) (p : Params) (h : mkParams c v = some p) :
    1024 ≤ p.chunkSize ∧ p.chunkSize ≤ 16384 ∧ p.bsVersion = v.getD 6 :=
  mkParams_facts c v p h

/-! ## termination -/

/-- **C03_huf_terminates.**  For EVERY input, decoder state and bitstream version, a `Read` of `count`
bytes ends: no loop of the model exhausts its fuel.
  * the chunk loops of `decodeV6` / `decodeV5` get `count / chunkSize + 2` rounds;
  * the main loop of `decodeChunkV5` (`for idx < sz-8`, four symbols per round, NOT bounded by
    `count` in the Go code) gets `len(block[startChunk:]) / 4 + 2` rounds: it writes `block[n..n+3]`
    with `n` growing by 4, so it ends by its own test or by the index panic at the end of the block;
  * its refill loop (`for bits < 12 && idx < sz`) gets 2 rounds (`bits` gains 8 per round), its
    symbol loop `count - n` rounds;
  * everything else is structural in the model: `DecodeAlphabet` (at most 32 mask bytes),
    `readLengths` (one Exp-Golomb code per symbol of the alphabet, at most 256; the unary prefix of a
    code ends with the input at the latest), `generateCanonicalCodes` / `buildDecodingTable` (at
    most 256 symbols, 4096 table entries), `ReadVarInt` (at most 5 bytes), `decodeChunkV6`
    (`count/4` symbols per sub-stream in groups of four, one `readState` per group: the number of
    rounds depends on `count` only, never on the payload).
So the time of one `Read` is `O((count/chunkSize + 1) · 4096 + count)` for version 6, and for
versions below 6 additionally `O(len(block))` per chunk. -/
theorem C03_huf_terminates (p : Params) (hcs : 0 < p.chunkSize) (s : St) (bs : Bits) (count : Nat) :
    (read p s bs count).cls ≠ .stop .fuel := by
  by_cases hv : p.bsVersion < 6
  · exact (read_v5 p hcs hv s bs count).1
  · exact (read_v6 p hcs hv s bs count).1

/-! ## allocation -/

/-- **C03_huf_v6_alloc.**  Bitstream version 6 (and above): whatever the input and however the call
ends (return, error, any panic), `len(this.buffer)` after `Read` is EXACTLY what it was, or
`2*chunkSize` (at most 32768) if it was shorter — the one `make` at the top of `decodeV6`.  Nothing
else is allocated by the decoder (`this.table`: 4096 entries made by the constructor and never
replaced; checked on the real object by the stream, together with the bytes the Go runtime
allocated during the call). -/
theorem C03_huf_v6_alloc (p : Params) (hcs : 0 < p.chunkSize) (hv : 6 ≤ p.bsVersion) (s : St) (bs : Bits)
    (count : Nat) :
    (read p s bs count).bufSz =
      if count = 0 then s.buf.size else if s.buf.size < 2 * p.chunkSize then 2 * p.chunkSize else s.buf.size :=
  (read_v6 p hcs (by omega) s bs count).2

/-- **C03_huf_v5_alloc_bound.**  Bitstream versions below 6, every input and state, however the call
ends: `len(this.buffer)` after `Read` is at most what it was, or `m + m/8` with
`m = max(2*min(chunkSize, count), 1024)` — `decodeChunkV5` rejects a payload size above
`max(2*sizeChunk, 1024)` before allocating `sz + sz>>3` bytes. -/
theorem C03_huf_v5_alloc_bound (p : Params) (hcs : 0 < p.chunkSize) (hv : p.bsVersion < 6) (s : St) (bs : Bits)
    (count : Nat) :
    (read p s bs count).bufSz ≤
      max s.buf.size (max (2 * min p.chunkSize count) 1024 + max (2 * min p.chunkSize count) 1024 / 8) :=
  (read_v5 p hcs hv s bs count).2

/-- **C03_huf_alloc_bound.**  EVERY bitstream version, input, state and `count`, every way the call can
end: `len(this.buffer)` after `Read` is at most what it was before, or `2*chunkSize + chunkSize/4`
(at most 36864 bytes: the constructors give `1024 ≤ chunkSize ≤ 16384`) — a function of the declared
chunk size only.  (Version 6: exactly `2*chunkSize`, `C03_huf_v6_alloc`; below 6: `C03_huf_v5_alloc_bound`.) -/
theorem C03_huf_alloc_bound (p : Params) (hcs : 512 ≤ p.chunkSize) (s : St) (bs : Bits) (count : Nat) :
    (read p s bs count).bufSz ≤ max s.buf.size (2 * p.chunkSize + p.chunkSize / 4) :=
  read_alloc p hcs s bs count

/-- the buffer `decodeChunkV5` asks for once the size has passed the check is a function of the
stream's VarInt alone, `max(sz + sz>>3, 1024)` with `sz = uint32(szBits+7)>>3` -/
theorem C03_huf_v5_alloc_rule (szBits : Nat) (buf : Array Nat) :
    (v5Alloc szBits buf).size =
      if buf.size < max (v5Sz szBits + v5Sz szBits / 8) 1024 then max (v5Sz szBits + v5Sz szBits / 8) 1024
      else buf.size :=
  v5Alloc_size szBits buf

/-- **C03_huf_v5_forged_size_rejected** (the input of the finding, `hd c - 5 1 800d6787fffff878` in
corpus/C03/hufdec.ops): version 5, a new decoder, `Read` of 1 byte on the 8 input bytes
`80 0d 67 87 ff ff f8 78` (alphabet {0,1}, lengths 1 and 1, stream count 0, VarInt `0xFFFFFFF0`):
`return 0, err` and `this.buffer` is still empty (before the repair: 603 979 773 bytes). -/
theorem C03_huf_v5_forged_size_rejected :
    (read ⟨16384, 5⟩ fresh (ofBytes [0x80, 0x0d, 0x67, 0x87, 0xff, 0xff, 0xf8, 0x78]) 1).cls = .ret 0 true ∧
    (read ⟨16384, 5⟩ fresh (ofBytes [0x80, 0x0d, 0x67, 0x87, 0xff, 0xff, 0xf8, 0x78]) 1).bufSz = 0 := by
  decide

/-! ## faults -/

/-- **C03_huf_v6_no_fault.**  Bitstream version 6 (and above): NO input and NO state of the decoder
object (any `this.buffer`, any content, any length) makes `Read` end in an index / slice-bounds
panic of the codec.  What remains is `ret n err`, `stop eos`, `stop overrun` (both raised inside the
input bitstream and recovered by the decoding task).  Ingredients, each for all inputs:
`DecodeAlphabet` delivers a strictly increasing list of bytes, so `generateCanonicalCodes` never
runs off its `buf` nor sees a length outside 1..12 (`C03_huf_header_no_fault`); in
`buildDecodingTable` the `uint16` values `idx`, `end` never wrap before the first tile that leaves
the 4096 entries, and that tile is answered `return false` — in particular an over-subscribed
(Kraft sum > 1) length table is REJECTED with "incorrect symbol size", never sliced
(`C03_huf_table_no_fault`); every table entry consumes 1..12 bits (`C03_huf_table_entries`), so the
`uint8` counters `bits` / `bs` stay in 1..56 and each `readState` advances its index by at most 7
bytes per group of four symbols: the 8-byte reads of the four sub-streams stay inside
`this.buffer` (`C03_huf_v6_readstate_safe`).  (`hcs`: the constructors give `chunkSize ≥ 1024`.) -/
theorem C03_huf_v6_no_fault (p : Params) (hcs : 128 ≤ p.chunkSize) (hv : 6 ≤ p.bsVersion) (s : St) (bs : Bits)
    (count : Nat) : (read p s bs count).cls ≠ .stop .fault :=
  read_v6_safe p hcs (by omega) s bs count

/-- an index panic of `Read` needs a bitstream version below 6 (`decodeChunkV5`) -/
theorem C03_huf_fault_only_v5 (p : Params) (hcs : 128 ≤ p.chunkSize) (s : St) (bs : Bits) (count : Nat)
    (h : (read p s bs count).cls = .stop .fault) : p.bsVersion < 6 := by
  by_cases hv : p.bsVersion < 6
  · exact hv
  · exact absurd h (read_v6_safe p hcs hv s bs count)

/-- `readLengths` (with `DecodeAlphabet`, the Exp-Golomb lengths, `generateCanonicalCodes`) never
panics, and what it accepts has lengths in 1..12 for every symbol of its alphabet.  Rejected with an
error: a running length that leaves 1..12 (`readSizesR`: `.err`). -/
theorem C03_huf_header_no_fault (bs : Bits) :
    (readLengthsR bs).isFault = false ∧
    ∀ x, readLengthsR bs = .ok x → ∀ sym ∈ x.1.alphabet, 1 ≤ x.1.sizes.getD sym 0 ∧ x.1.sizes.getD sym 0 ≤ 12 :=
  readLengthsR_facts bs

/-- `buildDecodingTable` never panics on a header `readLengths` accepted (it may refuse it) -/
theorem C03_huf_table_no_fault (bs : Bits) (x : Kanzi.Huffman.RL × Bits) (h : readLengthsR bs = .ok x) :
    (buildTableR x.1).isFault = false :=
  buildTableR_nofault bs x h

/-- every entry of a table `buildDecodingTable` builds is the initial 7 or `(symbol << 8) | length`
with a length in 1..12: a look-up always consumes 1..12 bits (no zero-progress entry) -/
theorem C03_huf_table_entries (bs : Bits) (x : Kanzi.Huffman.RL × Bits) (h : readLengthsR bs = .ok x)
    (tbl : List Nat) (ht : buildTableR x.1 = .ok tbl) :
    tbl.length = 4096 ∧ ∀ v ∈ tbl, 1 ≤ v % 256 ∧ v % 256 ≤ 12 := by
  unfold buildTableR at ht
  exact buildTableLoopR_TblL _ _ _ _ _ tbl (fun sym hs => ((readLengthsR_facts bs).2 x h sym hs).1) replicate7_TblL ht

/-- `decodeChunkV6` on ANY table whose entries consume 1..12 bits, ANY buffer of at least 256 and
`2*count` bytes with ANY content, ANY four sub-stream sizes: no read of `readState` leaves the buffer -/
theorem C03_huf_v6_readstate_safe (tbl : Array Nat)
    (h : ∀ i, i < 4096 → 1 ≤ tbl.getD i 0 % 256 ∧ tbl.getD i 0 % 256 ≤ 12) (count : Nat) (buf : Array Nat)
    (bs : Bits) (hL : 256 ≤ buf.size) (hc : 2 * count ≤ buf.size) : (chunkV6 tbl count buf bs).isFault = false :=
  chunkV6_nofault tbl h count buf bs hL hc

/-- **C03_huf_v5_fault_example** (`corpus/C03/hufdec.ops`, second line): version 5, `Read` of 1 byte,
a chunk whose VarInt announces 24 payload bytes (accepted: at most `max(2*count, 1024)`): the main loop of `decodeChunkV5` writes
`block[0..3]` without looking at `count` — index panic (recovered by the decoding task).  In the
model this is the test `n + 4 > rem` of `v5Main`: the panic is reachable exactly when the loop
condition `idx + 8 < sz` still holds after `len(block[startChunk:])/4` rounds, i.e. when the payload
announced is longer than the symbols asked for need (each round consumes at most 7 bytes). -/
theorem C03_huf_v5_fault_example :
    (read ⟨16384, 5⟩ fresh (ofBytes [128, 13, 102, 0, 15, 255, 255, 255, 255, 255, 255, 255, 255, 255,
      255, 255, 255, 255, 255, 255, 255, 255, 255, 255, 255, 255, 255, 255, 248]) 1).cls = .stop .fault := by
  set_option maxRecDepth 100000 in decide

/-! ## agreement with the decoder of C12 (`Model/Huffman.lean`) -/

/-- `readLengths` of the total model succeeds exactly when the one of the round-trip model does,
with the same alphabet, sizes, codes and remaining input -/
theorem C03_huf_header_agrees (bs : Bits) : (readLengthsR bs).toOpt = Kanzi.Huffman.readLengths bs :=
  readLengthsR_toOpt bs

/-- same for `buildDecodingTable` -/
theorem C03_huf_table_agrees (rl : Kanzi.Huffman.RL) : (buildTableR rl).toOpt = Kanzi.Huffman.buildTable rl :=
  buildTableR_toOpt rl

end Kanzi.C03
