package main

import (
	"bytes"
	"fmt"
	"io"

	kanzi "github.com/flanglet/kanzi-go/v2"
	"github.com/flanglet/kanzi-go/v2/entropy"
	kio "github.com/flanglet/kanzi-go/v2/io"
)

type sinkBuf struct{ bytes.Buffer }

func (*sinkBuf) Close() error { return nil }

type rc struct{ io.Reader }

func (rc) Close() error { return nil }

func adversarial(p kanzi.Predictor, n int) []byte {
	out := make([]byte, n)
	for i := 0; i < n; i++ {
		var b byte
		for k := 7; k >= 0; k-- {
			bit := byte(0)
			if p.Get() < 2048 {
				bit = 1
			}
			p.Update(bit)
			b |= bit << uint(k)
		}
		out[i] = b
	}
	return out
}

func try(name string, data []byte, bs uint) {
	var sb sinkBuf
	w, err := kio.NewWriter(&sb, "NONE", name, bs, 1, 32, 0, false)
	if err != nil {
		fmt.Println(name, "ctor", err)
		return
	}
	_, err = w.Write(data)
	err2 := w.Close()
	fmt.Printf("%s len=%d comp=%d ratio=%.3f werr=%v cerr=%v\n", name, len(data), sb.Len(), float64(sb.Len())/float64(len(data)), err, err2)
	if err == nil && err2 == nil {
		r, _ := kio.NewReader(rc{bytes.NewReader(sb.Bytes())}, 1)
		d, err := io.ReadAll(r)
		fmt.Println("   decode err", err, "equal", bytes.Equal(d, data))
	}
}

func main() {
	n := 400000
	bs := uint(1 << 20)
	ctx := map[string]any{"entropy": "CM", "blockSize": bs, "size": uint(n), "bsVersion": uint(6)}
	p, _ := entropy.NewCMPredictor(&ctx)
	try("CM", adversarial(p, n), bs)
	ctx2 := map[string]any{"entropy": "TPAQ", "blockSize": bs, "size": uint(n), "bsVersion": uint(6)}
	p2, _ := entropy.NewTPAQPredictor(&ctx2)
	try("TPAQ", adversarial(p2, n), bs)
}
