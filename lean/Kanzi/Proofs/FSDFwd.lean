/-
Proofs for the `fsd` slice, part 2: the emission loops of Forward.  For EVERY `(mode, dist)` the output
of `fsdEncode` is decoded by `fsdInverse` to the block (`fsdEncode_roundtrip`), fits the loop bound
`dstEnd` and never faults; the counted sampling loops never fault on a block of at least 1024 bytes.
-/
import Kanzi.Proofs.FSDInv

namespace Kanzi.FSD
open Kanzi.RLT (Out Res wr wr_ok wr_cases size_appendList)

/-! ## basics -/

theorem Out.bind_eq_ok {α β : Type} (x : Out α) (f : α → Out β) (b : β) :
    x.bind f = .ok b ↔ ∃ a, x = .ok a ∧ f a = .ok b := by
  cases x <;> simp [Out.bind]

theorem Out.bind_eq_fault {α β : Type} (x : Out α) (f : α → Out β) (e : String) :
    x.bind f = .fault e ↔ x = .fault e ∨ ∃ a, x = .ok a ∧ f a = .fault e := by
  cases x <;> simp [Out.bind]

theorem appendList_assoc (out : Array Nat) (l1 l2 : List Nat) : (out ++ l1) ++ l2 = out ++ (l1 ++ l2) := by
  apply Array.ext'; simp

theorem appendList_nil (out : Array Nat) : out ++ ([] : List Nat) = out := by
  apply Array.ext'; simp

theorem rdBack_some (a : Array Nat) (base i d : Nat) (h1 : d ≤ i) (h2 : base + (i - d) < a.size) :
    rdBack a base i d = some (a[base + (i - d)]'h2) := by
  unfold rdBack
  rw [if_neg (by omega)]
  exact Array.getElem?_eq_getElem h2

theorem rdBack0_some (a : Array Nat) (i d : Nat) (h1 : d ≤ i) (h2 : i < a.size) :
    rdBack a 0 i d = some (a[i - d]'(by omega)) := by
  rw [rdBack_some a 0 i d h1 (by omega)]
  simp

theorem take_size (a : Array Nat) : a.toList.take a.size = a.toList := by
  rw [← Array.length_toList]; exact List.take_length

/-- a prefix copy `d` of `a` agrees with `a` below `i` -/
theorem prefix_get (a d : Array Nat) (i k : Nat) (h : d.toList = a.toList.take i) (hk : k < i)
    (hka : k < a.size) : d[k]? = some (a[k]'hka) := by
  rw [← Array.getElem?_toList, h, List.getElem?_take_of_lt hk, Array.getElem?_toList]
  exact Array.getElem?_eq_getElem hka

theorem prefix_size (a d : Array Nat) (i : Nat) (h : d.toList = a.toList.take i) (hi : i ≤ a.size) :
    d.size = i := by
  rw [← Array.length_toList, h, List.length_take, Array.length_toList]; omega

theorem prefix_push (a d : Array Nat) (i : Nat) (h : d.toList = a.toList.take i) (hi : i < a.size) :
    (d.push (a[i]'hi)).toList = a.toList.take (i + 1) := by
  rw [Array.toList_push, h, List.take_add_one, Array.getElem?_toList, Array.getElem?_eq_getElem hi]
  rfl

theorem prefix_back (a d : Array Nat) (i dist : Nat) (h : d.toList = a.toList.take i) (h1 : 1 ≤ dist)
    (hd : dist ≤ i) (hi : i < a.size) : back d dist = some (a[i - dist]'(by omega)) := by
  have hs := prefix_size a d i h (by omega)
  unfold back
  rw [if_neg (by omega), hs]
  exact prefix_get a d i (i - dist) h (by omega) (by omega)

/-! ## delta coding loop -/

/-- the tokens emitted by `encDelta` from position `i` on are decoded by `invDelta` started on the prefix
    `a[0:i]`; they are bytes -/
theorem encDelta_dec (a : Array Nat) (dist dstEnd dstLen : Nat) (h1 : 1 ≤ dist)
    (hb : ∀ (i : Nat) (h : i < a.size), a[i] < 256) :
    ∀ (f i : Nat) (out : Array Nat) (r : Nat × Array Nat), dist ≤ i → i ≤ a.size →
      encDelta a dist dstEnd dstLen f i out = .ok r → r.1 = a.size →
      ∃ toks : List Nat, r.2 = out ++ toks ∧ (∀ y ∈ toks, y < 256) ∧
        ∀ (n : Nat) (d : Array Nat), a.size ≤ n → d.toList = a.toList.take i →
          invDelta dist n toks d = .ok a.toList := by
  intro f
  induction f with
  | zero =>
    intro i out r hdi hia h hr
    unfold encDelta at h
    split at h
    · simp at h
    · simp only [Out.ok.injEq] at h
      subst h
      simp only at hr
      subst hr
      refine ⟨[], (appendList_nil out).symm, by simp, ?_⟩
      intro n d _ hd
      simp [invDelta, hd, take_size]
  | succ f ih =>
    intro i out r hdi hia h hr
    unfold encDelta at h
    split at h
    · rename_i hc
      have hi : i < a.size := hc.1
      rw [Array.getElem?_eq_getElem hi, rdBack0_some a i dist hdi hi] at h
      simp only at h
      rcases wr_cases dstLen out (deltaToken a[i] (a[i - dist]'(by omega))) with hw | ⟨e, hw⟩
      · rw [hw] at h
        simp only [Kanzi.RLT.Out.bind_ok] at h
        obtain ⟨toks, h2, hby, hdec⟩ := ih (i + 1) _ r (by omega) (by omega) h hr
        refine ⟨deltaToken a[i] (a[i - dist]'(by omega)) ++ toks, ?_, ?_, ?_⟩
        · rw [h2, appendList_assoc]
        · intro y hy
          rcases List.mem_append.mp hy with hy | hy
          · exact deltaToken_bytes _ _ (hb i hi) (hb (i - dist) (by omega)) y hy
          · exact hby y hy
        · intro n d hn hd
          have hs := prefix_size a d i hd (by omega)
          rw [invDelta_token dist n _ _ toks d (hb i hi) (hb (i - dist) (by omega)) (by omega)
            (prefix_back a d i dist hd h1 hdi hi)]
          exact hdec n _ hn (prefix_push a d i hd hi)
      · rw [hw] at h; simp at h
    · simp only [Out.ok.injEq] at h
      subst h
      simp only at hr
      subst hr
      refine ⟨[], (appendList_nil out).symm, by simp, ?_⟩
      intro n d _ hd
      simp [invDelta, hd, take_size]

/-- sizes: the delta loop stays within `dstEnd` and emits at least one byte per source byte -/
theorem encDelta_size (a : Array Nat) (dist dstEnd dstLen : Nat) :
    ∀ (f i : Nat) (out : Array Nat) (r : Nat × Array Nat),
      encDelta a dist dstEnd dstLen f i out = .ok r → out.size ≤ dstEnd →
      r.2.size ≤ dstEnd ∧ i ≤ r.1 ∧ out.size + (r.1 - i) ≤ r.2.size := by
  intro f
  induction f with
  | zero =>
    intro i out r h ho
    unfold encDelta at h
    split at h
    · simp at h
    · simp only [Out.ok.injEq] at h
      subst h; simp; exact ho
  | succ f ih =>
    intro i out r h ho
    unfold encDelta at h
    split at h
    · rename_i hc
      split at h
      · rename_i x p _ _
        rcases wr_cases dstLen out (deltaToken x p) with hw | ⟨e, hw⟩
        · rw [hw] at h
          simp only [Kanzi.RLT.Out.bind_ok] at h
          have hl := deltaToken_length x p
          have := ih (i + 1) _ r h (by rw [size_appendList]; omega)
          rw [size_appendList] at this
          omega
        · rw [hw] at h; simp at h
      · simp at h
    · simp only [Out.ok.injEq] at h
      subst h; simp; exact ho

theorem encDelta_ne_fault (a : Array Nat) (dist dstEnd dstLen : Nat) (hle : dstEnd ≤ dstLen) (e : String) :
    ∀ (f i : Nat) (out : Array Nat), a.size - i ≤ f → dist ≤ i →
      encDelta a dist dstEnd dstLen f i out ≠ .fault e := by
  intro f
  induction f with
  | zero =>
    intro i out hf _
    unfold encDelta
    rw [if_neg (by omega)]; simp
  | succ f ih =>
    intro i out hf hdi
    unfold encDelta
    split
    · rename_i hc
      have hi : i < a.size := hc.1
      rw [Array.getElem?_eq_getElem hi, rdBack0_some a i dist hdi hi]
      simp only
      have hl := deltaToken_length a[i] (a[i - dist]'(by omega))
      rw [wr_ok dstLen out _ (by omega)]
      simp only [Kanzi.RLT.Out.bind_ok]
      exact ih (i + 1) _ (by omega) (by omega)
    · simp

/-! ## xor coding loop -/

theorem encXor_dec (a : Array Nat) (dist dstLen : Nat) (h1 : 1 ≤ dist)
    (hb : ∀ (i : Nat) (h : i < a.size), a[i] < 256) :
    ∀ (f i : Nat) (out : Array Nat) (r : Nat × Array Nat), dist ≤ i → i ≤ a.size →
      encXor a dist dstLen f i out = .ok r → r.1 = a.size →
      ∃ toks : List Nat, r.2 = out ++ toks ∧ (∀ y ∈ toks, y < 256) ∧
        ∀ (n : Nat) (d : Array Nat), a.size ≤ n → d.toList = a.toList.take i →
          invXor dist n toks d = .ok a.toList := by
  intro f
  induction f with
  | zero =>
    intro i out r hdi hia h hr
    unfold encXor at h
    split at h
    · simp at h
    · simp only [Out.ok.injEq] at h
      subst h
      simp only at hr
      subst hr
      refine ⟨[], (appendList_nil out).symm, by simp, ?_⟩
      intro n d _ hd
      simp [invXor, hd, take_size]
  | succ f ih =>
    intro i out r hdi hia h hr
    unfold encXor at h
    split at h
    · rename_i hi
      rw [Array.getElem?_eq_getElem hi, rdBack0_some a i dist hdi hi] at h
      simp only at h
      rcases wr_cases dstLen out [a[i] ^^^ (a[i - dist]'(by omega))] with hw | ⟨e, hw⟩
      · rw [hw] at h
        simp only [Kanzi.RLT.Out.bind_ok] at h
        obtain ⟨toks, h2, hby, hdec⟩ := ih (i + 1) _ r (by omega) (by omega) h hr
        refine ⟨(a[i] ^^^ (a[i - dist]'(by omega))) :: toks, ?_, ?_, ?_⟩
        · rw [h2, appendList_assoc]; rfl
        · intro y hy
          rcases List.mem_cons.mp hy with hy | hy
          · subst hy; exact Nat.xor_lt_two_pow (n := 8) (hb i hi) (hb (i - dist) (by omega))
          · exact hby y hy
        · intro n d hn hd
          have hs := prefix_size a d i hd (by omega)
          rw [invXor_token dist n _ _ toks d (by omega) (prefix_back a d i dist hd h1 hdi hi)]
          exact hdec n _ hn (prefix_push a d i hd hi)
      · rw [hw] at h; simp at h
    · simp only [Out.ok.injEq] at h
      subst h
      simp only at hr
      subst hr
      refine ⟨[], (appendList_nil out).symm, by simp, ?_⟩
      intro n d _ hd
      simp [invXor, hd, take_size]

theorem encXor_size (a : Array Nat) (dist dstLen : Nat) :
    ∀ (f i : Nat) (out : Array Nat) (r : Nat × Array Nat),
      encXor a dist dstLen f i out = .ok r → i ≤ r.1 ∧ r.2.size = out.size + (r.1 - i) := by
  intro f
  induction f with
  | zero =>
    intro i out r h
    unfold encXor at h
    split at h
    · simp at h
    · simp only [Out.ok.injEq] at h
      subst h; simp
  | succ f ih =>
    intro i out r h
    unfold encXor at h
    split at h
    · split at h
      · rename_i x p _ _
        rcases wr_cases dstLen out [x ^^^ p] with hw | ⟨e, hw⟩
        · rw [hw] at h
          simp only [Kanzi.RLT.Out.bind_ok] at h
          have := ih (i + 1) _ r h
          rw [size_appendList] at this
          simp only [List.length_cons, List.length_nil] at this
          omega
        · rw [hw] at h; simp at h
      · simp at h
    · simp only [Out.ok.injEq] at h
      subst h; simp

theorem encXor_ne_fault (a : Array Nat) (dist dstLen : Nat) (e : String) :
    ∀ (f i : Nat) (out : Array Nat), a.size - i ≤ f → dist ≤ i → out.size + (a.size - i) ≤ dstLen →
      encXor a dist dstLen f i out ≠ .fault e := by
  intro f
  induction f with
  | zero =>
    intro i out hf _ _
    unfold encXor
    rw [if_neg (by omega)]; simp
  | succ f ih =>
    intro i out hf hdi ho
    unfold encXor
    split
    · rename_i hi
      rw [Array.getElem?_eq_getElem hi, rdBack0_some a i dist hdi hi]
      simp only
      rw [wr_ok dstLen out _ (by simp; omega)]
      simp only [Kanzi.RLT.Out.bind_ok]
      exact ih (i + 1) _ (by omega) (by omega) (by rw [size_appendList]; simp; omega)
    · simp

/-! ## header and first bytes -/

theorem copyFirst_ok (a : Array Nat) (dstLen : Nat) :
    ∀ (n i : Nat) (out : Array Nat), i + n ≤ a.size → out.size + n ≤ dstLen →
      copyFirst a dstLen n i out = .ok (out ++ (a.toList.drop i).take n) := by
  intro n
  induction n with
  | zero => intro i out _ _; simp [copyFirst]
  | succ n ih =>
    intro i out hi ho
    unfold copyFirst
    rw [Array.getElem?_eq_getElem (by omega : i < a.size)]
    simp only
    rw [wr_ok dstLen out _ (by simp; omega)]
    simp only [Kanzi.RLT.Out.bind_ok]
    rw [ih (i + 1) _ (by omega) (by rw [size_appendList]; simp; omega), appendList_assoc]
    congr 2
    rw [List.drop_eq_getElem_cons (by simp; omega : i < a.toList.length)]
    simp

/-- the state of Forward when the coding loop starts -/
def encStart (a : Array Nat) (mode dist : Nat) : Array Nat :=
  ((#[] : Array Nat) ++ [mode, dist % 256]) ++ (a.toList.take dist)

theorem encStart_size (a : Array Nat) (mode dist : Nat) (h : dist ≤ a.size) :
    (encStart a mode dist).size = 2 + dist := by
  unfold encStart
  rw [size_appendList, size_appendList]
  simp; omega

theorem fsdEncode_eq (a : Array Nat) (mode dist dstEnd dstLen : Nat) (hda : dist ≤ a.size)
    (hlen : dist + 2 ≤ dstLen) :
    fsdEncode a mode dist dstEnd dstLen =
      if mode = DELTA_CODING then encDelta a dist dstEnd dstLen (a.size - dist) dist (encStart a mode dist)
      else encXor a dist dstLen (a.size - dist) dist (encStart a mode dist) := by
  unfold fsdEncode
  rw [wr_ok dstLen #[] _ (by simp; omega)]
  simp only [Kanzi.RLT.Out.bind_ok]
  rw [copyFirst_ok a dstLen dist 0 _ (by omega) (by rw [size_appendList]; simp; omega)]
  simp only [Kanzi.RLT.Out.bind_ok, List.drop_zero]
  rfl

theorem validDist (dist : Nat) (hd : dist = 1 ∨ dist = 2 ∨ dist = 3 ∨ dist = 4 ∨ dist = 8 ∨ dist = 16) :
    ¬ (dist < 1 ∨ (dist > 4 ∧ dist ≠ 8 ∧ dist ≠ 16)) := by omega

/-- Round trip of the emission part of Forward, for EVERY coding mode and EVERY admissible step: when
    the coding loop consumed the whole block, Inverse into any destination of at least the block length
    restores the block; the output consists of bytes and has at most `max dstEnd (len + 2)` bytes. -/
theorem fsdEncode_roundtrip (a : Array Nat) (mode dist dstEnd dstLen : Nat)
    (hm : mode = DELTA_CODING ∨ mode = XOR_CODING)
    (hd : dist = 1 ∨ dist = 2 ∨ dist = 3 ∨ dist = 4 ∨ dist = 8 ∨ dist = 16)
    (hda : dist ≤ a.size) (hlen : dist + 2 ≤ dstLen)
    (hb : ∀ (i : Nat) (h : i < a.size), a[i] < 256)
    (r : Nat × Array Nat) (h : fsdEncode a mode dist dstEnd dstLen = .ok r) (hr : r.1 = a.size) :
    (∀ y ∈ r.2.toList, y < 256) ∧ (∀ n, a.size ≤ n → fsdInverse r.2.toList n = .ok a.toList) := by
  rw [fsdEncode_eq a mode dist dstEnd dstLen hda hlen] at h
  have h1 : 1 ≤ dist := by omega
  have hstart : (encStart a mode dist).toList = mode :: dist :: a.toList.take dist := by
    unfold encStart
    have : dist % 256 = dist := by omega
    simp [this]
  -- common part: given the tokens and their decoding
  have key : ∀ (toks : List Nat), r.2 = encStart a mode dist ++ toks → (∀ y ∈ toks, y < 256) →
      (∀ (n : Nat), a.size ≤ n →
        (if mode = DELTA_CODING then invDelta dist n toks (a.toList.take dist).toArray
         else if mode = XOR_CODING then invXor dist n toks (a.toList.take dist).toArray
         else .err "mode") = .ok a.toList) →
      (∀ y ∈ r.2.toList, y < 256) ∧ (∀ n, a.size ≤ n → fsdInverse r.2.toList n = .ok a.toList) := by
    intro toks h2 hby hdec
    have hl : r.2.toList = mode :: dist :: (a.toList.take dist ++ toks) := by
      rw [h2, Array.toList_appendList, hstart]; simp
    constructor
    · intro y hy
      rw [hl] at hy
      simp only [List.mem_cons, List.mem_append] at hy
      rcases hy with hy | hy | hy | hy
      · subst hy; rcases hm with hm | hm <;> simp [hm, DELTA_CODING, XOR_CODING]
      · omega
      · obtain ⟨k, hk, rfl⟩ := List.getElem_of_mem (List.mem_of_mem_take hy)
        simp only [Array.length_toList] at hk
        simpa using hb k hk
      · exact hby y hy
    · intro n hn
      rw [hl]
      unfold fsdInverse
      rw [if_neg (by simp; omega)]
      simp only
      rw [if_neg (validDist dist hd), if_neg (by simp; omega), if_neg (by omega)]
      have ht : List.take dist (List.take dist a.toList ++ toks) = List.take dist a.toList := by
        rw [List.take_append_of_le_length (by simp; omega), List.take_take]; simp
      have hdr : List.drop dist (List.take dist a.toList ++ toks) = toks := by
        rw [List.drop_append_of_le_length (by simp; omega)]
        simp
      rw [ht, hdr]
      exact hdec n hn
  split at h
  · rename_i hmode
    obtain ⟨toks, h2, hby, hdec⟩ := encDelta_dec a dist dstEnd dstLen h1 hb _ dist _ r (Nat.le_refl _) hda h hr
    refine key toks h2 hby ?_
    intro n hn
    rw [if_pos hmode]
    exact hdec n _ hn (by simp)
  · rename_i hmode
    have hx : mode = XOR_CODING := by rcases hm with hm | hm; exact absurd hm hmode; exact hm
    obtain ⟨toks, h2, hby, hdec⟩ := encXor_dec a dist dstLen h1 hb _ dist _ r (Nat.le_refl _) hda h hr
    refine key toks h2 hby ?_
    intro n hn
    rw [if_neg hmode, if_pos hx]
    exact hdec n _ hn (by simp)

/-- size of the output of the emission part when the whole block was consumed: within the loop bound
    `dstEnd`, and at least `len + 2` bytes -/
theorem fsdEncode_size (a : Array Nat) (mode dist dstEnd dstLen : Nat)
    (hda : dist ≤ a.size) (hlen : dist + 2 ≤ dstLen) (hend : a.size + 2 ≤ dstEnd)
    (r : Nat × Array Nat) (h : fsdEncode a mode dist dstEnd dstLen = .ok r) (hr : r.1 = a.size) :
    r.2.size ≤ dstEnd ∧ a.size + 2 ≤ r.2.size := by
  rw [fsdEncode_eq a mode dist dstEnd dstLen hda hlen] at h
  have hs := encStart_size a mode dist hda
  split at h
  · have := encDelta_size a dist dstEnd dstLen _ _ _ r h (by omega)
    omega
  · have := encXor_size a dist dstLen _ _ _ r h
    omega

theorem fsdEncode_ne_fault (a : Array Nat) (mode dist dstEnd dstLen : Nat)
    (hda : dist ≤ a.size) (hle : dstEnd ≤ dstLen) (hend : a.size + 2 ≤ dstEnd) (e : String) :
    fsdEncode a mode dist dstEnd dstLen ≠ .fault e := by
  rw [fsdEncode_eq a mode dist dstEnd dstLen hda (by omega)]
  have hs := encStart_size a mode dist hda
  split
  · exact encDelta_ne_fault a dist dstEnd dstLen hle e _ _ _ (Nat.le_refl _) (Nat.le_refl _)
  · exact encXor_ne_fault a dist dstLen e _ _ _ (Nat.le_refl _) (Nat.le_refl _) (by omega)

/-! ## the counted loops of the sampling phase never fault -/

theorem sampleAt_ok (a : Array Nat) (base i : Nat) (h : Hist) (h16 : 16 ≤ i) (hi : base + i < a.size) :
    ∃ h', sampleAt a base i h = .ok h' := by
  unfold sampleAt
  rw [Array.getElem?_eq_getElem hi, rdBack_some a base i 1 (by omega) (by omega),
    rdBack_some a base i 2 (by omega) (by omega), rdBack_some a base i 3 (by omega) (by omega),
    rdBack_some a base i 4 (by omega) (by omega), rdBack_some a base i 8 (by omega) (by omega),
    rdBack_some a base i 16 (by omega) (by omega)]
  exact ⟨_, rfl⟩

theorem sampleLoop_ok (a : Array Nat) (c5 : Nat) :
    ∀ (n i : Nat) (h : Hist), 16 ≤ i → 4 * c5 + i + n ≤ a.size → ∃ h', sampleLoop a c5 n i h = .ok h' := by
  intro n
  induction n with
  | zero => intro i h _ _; exact ⟨h, rfl⟩
  | succ n ih =>
    intro i h h16 hn
    unfold sampleLoop
    obtain ⟨h1, e1⟩ := sampleAt_ok a 0 i h h16 (by omega)
    obtain ⟨h2, e2⟩ := sampleAt_ok a (2 * c5) i h1 h16 (by omega)
    obtain ⟨h3, e3⟩ := sampleAt_ok a (4 * c5) i h2 h16 (by omega)
    rw [e1]; simp only [Kanzi.RLT.Out.bind_ok]
    rw [e2]; simp only [Kanzi.RLT.Out.bind_ok]
    rw [e3]; simp only [Kanzi.RLT.Out.bind_ok]
    exact ih (i + 1) h3 (by omega) (by omega)

theorem largeDeltas_ok (a : Array Nat) (dist : Nat) :
    ∀ (n i acc : Nat), dist ≤ i → i + n ≤ a.size → ∃ v, largeDeltas a dist n i acc = .ok v := by
  intro n
  induction n with
  | zero => intro i acc _ _; exact ⟨acc, rfl⟩
  | succ n ih =>
    intro i acc hd hn
    unfold largeDeltas
    rw [Array.getElem?_eq_getElem (by omega : i < a.size), rdBack0_some a i dist hd (by omega)]
    exact ih (i + 1) _ (by omega) (by omega)

theorem finalHisto_ok (o : Array Nat) (c5 : Nat) :
    ∀ (n i : Nat) (h : Array Nat), 3 * c5 + i + n ≤ o.size → ∃ h', finalHisto o c5 n i h = .ok h' := by
  intro n
  induction n with
  | zero => intro i h _; exact ⟨h, rfl⟩
  | succ n ih =>
    intro i h hn
    unfold finalHisto
    rw [Array.getElem?_eq_getElem (by omega : c5 + i < o.size),
      Array.getElem?_eq_getElem (by omega : 3 * c5 + i < o.size)]
    exact ih (i + 1) _ (by omega)

end Kanzi.FSD
