/-
C13 for the sorted rank transform `transform.SRT` (v2/transform/SRT.go) — property theorems only.
Model: `Kanzi/Model/SRT.lean` (tied to /repo by the `srt` correspondence stream); proofs:
`Kanzi/Proofs/SRTHeader.lean` (varint header), `SRTSort.lean` (Shell sort of `preprocess`),
`SRTList.lean` / `SRTFwd.lean` / `SRTInv.lean` (rank transform and its inverse), `SRT.lean`.

Conventions: a block is a `List Nat` of byte values (hypothesis `∀ x ∈ b, x < 256`); the last
argument of `srtForward` / `srtInverse` is `len(dst)` of the Go call; `.ok t` is `dst[0:written]` with
a nil error, `.err` a non-nil error, `.fault` a Go panic (slice index out of range).
`srtForwardFill fill` is Forward on a destination whose bytes all hold `fill` before the call
(`srtForward = srtForwardFill 0`): the theorems hold for every `fill`, i.e. no byte of the output is
left unwritten.  "The input is left unmodified when Forward declines" is not a theorem here (values
are immutable); it is an oracle of the `srt` stream on the real code.

The one hypothesis beyond "bytes": NO SYMBOL OCCURS 2^31 TIMES OR MORE (`∀ c, b.count c < 2^31`,
implied by `b.length < 2^31`; the compressor hands over at most 2^30 bytes).  This is the domain of
the Go code itself: `freqs` is `[256]int32`, and the decoder keeps three bits of the fifth varint
byte (`C13_srt_header_sharp`).

History (findings of this slice, repaired in /repo by ee98bca): `decodeHeader` used to read at most
four varint bytes although `encodeHeader` writes five for a frequency ≥ 2^28, so blocks of 256 MiB ..
1 GiB with such a symbol did not round-trip, and `_SRT_MAX_HEADER_SIZE` was 4*256 although a header
can take 1025 bytes and more (Forward then indexed past a destination of exactly `MaxEncodedLen`
bytes).  The theorems below are about the repaired code: fifth byte read, `MaxEncodedLen = len + 1280`.
-/
import Kanzi.Model.SRT
import Kanzi.Proofs.SRT

namespace Kanzi.C13
open Kanzi.SRT

/-- C13_srt_header: `decodeHeader` inverts `encodeHeader` on every table of 256 frequencies below
2^31 (every non-negative int32; whatever follows the header), and the header takes between 256 and
1280 = `_SRT_MAX_HEADER_SIZE` bytes. -/
theorem C13_srt_header (freqs rest : List Nat) (hlen : freqs.length = 256)
    (hf : ∀ f ∈ freqs, f < 2 ^ 31) :
    decodeHeader (encodeHeader freqs ++ rest) = some (freqs, rest) ∧
      256 ≤ (encodeHeader freqs).length ∧ (encodeHeader freqs).length ≤ 1280 := by
  have h := encodeHeader_length freqs hf
  rw [hlen] at h
  exact ⟨decodeHeader_encodeHeader freqs hlen hf rest, h.1, h.2⟩

/-- the bound 2^31 is exact: the encoder writes bit 31 into the fifth byte (it emits up to five
bytes for values below 2^35) but the decoder keeps only `val & 0x07` of it, so 2^31 is not read back.
(A Go `int32` frequency cannot reach 2^31.) -/
theorem C13_srt_header_sharp : decVar (encVar (2 ^ 31)) ≠ some (2 ^ 31, []) :=
  decVar_encVar_sharp

/-- four bytes per frequency suffice below 2^28; in general one extra byte per 2^28 occurrences:
the header of a table whose entries add up to `n` takes at most `1024 + n / 2^28` bytes. -/
theorem C13_srt_header_bound (freqs : List Nat) (hlen : freqs.length = 256)
    (hf : ∀ f ∈ freqs, f < 2 ^ 31) :
    (encodeHeader freqs).length ≤ 1024 + freqs.sum / 2 ^ 28 := by
  have h := encodeHeader_length_sum freqs hf
  rw [hlen] at h
  exact h

/-- C13_srt: into any destination of at least `MaxEncodedLen(len) = len + 1280` bytes (with any
previous contents) Forward NEVER declines and never faults; its output fits in `MaxEncodedLen`; and
Inverse of that output into any destination of at least the original length returns the block. -/
theorem C13_srt (fill : Nat) (b : List Nat) (dstLen : Nat) (hb : ∀ x ∈ b, x < 256)
    (hfreq : ∀ c, b.count c < 2 ^ 31) (hdst : maxEncodedLen b.length ≤ dstLen) :
    ∃ t, srtForwardFill fill b dstLen = .ok t ∧ t.length ≤ maxEncodedLen b.length ∧
      ∀ n, b.length ≤ n → srtInverse t n = .ok b :=
  srt_roundtrip fill b dstLen hb hfreq hdst

/-- the same with the hypothesis on the block length -/
theorem C13_srt_len (b : List Nat) (dstLen : Nat) (hb : ∀ x ∈ b, x < 256)
    (hlen : b.length < 2 ^ 31) (hdst : maxEncodedLen b.length ≤ dstLen) :
    ∃ t, srtForward b dstLen = .ok t ∧ t.length ≤ maxEncodedLen b.length ∧
      ∀ n, b.length ≤ n → srtInverse t n = .ok b :=
  srt_roundtrip 0 b dstLen hb (count_lt_of_length_lt b _ hlen) hdst

/-- sharper size bound than `MaxEncodedLen`: the output takes at most `len + 1024 + len / 2^28`
bytes, i.e. `len + 1024` below 256 MiB and at most `len + 1028` up to the pipeline limit 2^30. -/
theorem C13_srt_size_sharp (fill : Nat) (b t : List Nat) (dstLen : Nat) (hb : ∀ x ∈ b, x < 256)
    (hfreq : ∀ c, b.count c < 2 ^ 31) (hdst : maxEncodedLen b.length ≤ dstLen)
    (h : srtForwardFill fill b dstLen = .ok t) :
    t.length ≤ b.length + 1024 + b.length / 2 ^ 28 ∧
      (b.length ≤ 2 ^ 30 → t.length ≤ b.length + 1028) := by
  have h1 := srtForward_length_sharp fill b t dstLen hb hfreq hdst h
  refine ⟨h1, fun hl => ?_⟩
  omega

/-- C13_srt_total (Forward): no destination size makes Forward fault (too small: error). -/
theorem C13_srt_total_forward (fill : Nat) (b : List Nat) (dstLen : Nat) (hb : ∀ x ∈ b, x < 256)
    (hfreq : ∀ c, b.count c < 2 ^ 31) : srtForwardFill fill b dstLen ≠ .fault :=
  srtForward_no_fault fill b dstLen hb hfreq

/-- C13_srt_total (Inverse) does NOT hold for arbitrary input — FINDING.  What holds: Inverse never
faults when the header parses and the frequencies it announces fit in the data that follows
(`total fr S` = the sum of the frequencies of the announced symbols).  This is the check missing in
the Go code (it only tests `bucketPos > len(src)` before adding the frequency). -/
theorem C13_srt_total_inverse_partial (src fs data : List Nat) (n : Nat)
    (hd : decodeHeader src = some (fs, data))
    (hsum : total fs.toArray (preprocess fs.toArray) ≤ data.length) :
    srtInverse src n ≠ .fault :=
  srtInverse_no_fault src fs data n hd hsum

/-- FINDING (1): every non-empty input shorter than 256 bytes makes Inverse panic
(`decodeHeader` indexes `src` without a length check). -/
theorem C13_srt_inverse_faults_short (src : List Nat) (n : Nat) (h0 : src ≠ []) (hn : n ≠ 0)
    (h : src.length < 256) : srtInverse src n = .fault :=
  srtInverse_short_fault src n h0 hn h

/-- FINDING (2): header "symbols 0 and 1 occur once", one data byte: `src[bucketPos]` with
`bucketPos == len(src)` (the guard is `>`), panic in the bucket loop. -/
theorem C13_srt_inverse_faults_sum : srtInverse ([1, 1] ++ List.replicate 255 0) 16 = .fault := by
  decide +kernel

/-- FINDING (3): header "symbol 0 occurs 5 times", one data byte: `src[buckets[c]]` out of range in
the decoding loop. -/
theorem C13_srt_inverse_faults_freq : srtInverse ([5] ++ List.replicate 256 0) 16 = .fault := by
  decide +kernel

/-- C13_srt_bytes: the output of Forward consists of bytes (for every input list, whenever the
destination held bytes). -/
theorem C13_srt_bytes (fill : Nat) (b t : List Nat) (dstLen : Nat) (hfill : fill < 256)
    (h : srtForwardFill fill b dstLen = .ok t) : ∀ y ∈ t, y < 256 :=
  srtForward_bytes fill b t dstLen hfill h

/-- what Inverse relies on from `preprocess`: it is a permutation of the symbols with a non-zero
frequency (so both directions, which run it on the same table, lay the buckets out identically) … -/
theorem C13_srt_preprocess_perm (freqs : Array Nat) :
    (preprocess freqs).Perm ((List.range 256).filter (fun i => rd freqs i != 0)) :=
  preprocess_perm freqs

/-- … and, as the name of the transform says, sorted by decreasing frequency, ties by increasing
symbol (the Shell sort with gaps …, 40, 13, 4, 1 is a correct sort). -/
theorem C13_srt_preprocess_sorted (freqs : Array Nat) :
    (preprocess freqs).Pairwise
      (fun a b => rd freqs b < rd freqs a ∨ (rd freqs a = rd freqs b ∧ a < b)) :=
  preprocess_sorted freqs

/-- the hypotheses of `C13_srt` are satisfiable -/
example : ∃ t, srtForward [3, 3, 1, 3] 1284 = .ok t ∧ t.length ≤ maxEncodedLen 4 ∧
    ∀ n, 4 ≤ n → srtInverse t n = .ok [3, 3, 1, 3] :=
  C13_srt_len [3, 3, 1, 3] 1284 (by decide) (by decide) (by decide)

end Kanzi.C13
