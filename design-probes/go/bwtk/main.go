package main

import (
	"bytes"
	"fmt"
	"io"
	"math/rand"
	"os"
	"strconv"

	kio "github.com/flanglet/kanzi-go/v2/io"
	"scratch/gen"
)

type sinkBuf struct{ bytes.Buffer }

func (*sinkBuf) Close() error { return nil }

type rc struct{ io.Reader }

func (rc) Close() error { return nil }

func main() {
	r := rand.New(rand.NewSource(1))
	data := gen.Text(r, 5<<20)
	var sb sinkBuf
	w, _ := kio.NewWriter(&sb, "BWT", "NONE", 8<<20, 1, 0, 0, false)
	w.Write(data)
	w.Close()
	comp := sb.Bytes()
	off, _ := strconv.Atoi(os.Args[1])
	bad := append([]byte{}, comp...)
	bad[off] = 0xFF
	bad[off+1] = 0xFF
	bad[off+2] = 0xFF
	rd, _ := kio.NewReader(rc{bytes.NewReader(bad)}, 1)
	d, err := io.ReadAll(rd)
	fmt.Println("off", off, "len", len(d), "err", err)
}
