/-
Line-protocol driver for the executable models (`kmodel <stream>`): one operation per input line,
one canonical output line per operation.  Imports only `Kanzi.Model.*` (core Lean), so it links.
-/
import Kanzi.Model.Normalize

open Kanzi

def joinNat (l : List Nat) : String := " ".intercalate (l.map toString)

def parseNats (ws : List String) : Option (List Nat) := ws.mapM String.toNat?

namespace Drv

/-- `n <scale> <total> f0 f1 ...` -/
def norm (line : String) : String :=
  match (line.splitOn " ").filter (· ≠ "") with
  | "n" :: rest =>
    match parseNats rest with
    | some (scale :: total :: fs) =>
      if fs.sum ≠ total then "pre"
      else match Normalize.normalize fs total scale with
        | .err m => s!"err {m}"
        | .ok o => s!"ok {o.size} | {joinNat o.alphabet} | {joinNat o.freqs}"
    | _ => "bad-op"
  | _ => "bad-op"

end Drv

partial def loop (h : IO.FS.Stream) (out : IO.FS.Stream) (f : String → String) : IO Unit := do
  let line ← h.getLine
  if line.isEmpty then return ()
  let l := (line.dropRightWhile (fun c => c = '\n' || c = '\r'))
  out.putStrLn (f l)
  loop h out f

def main (args : List String) : IO UInt32 := do
  let stdin ← IO.getStdin
  let stdout ← IO.getStdout
  match args with
  | ["norm"] => loop stdin stdout Drv.norm; return 0
  | _ => IO.eprintln "usage: kmodel <norm>"; return 2
