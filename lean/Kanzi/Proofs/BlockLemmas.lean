/-
Bit-string lemmas for the block codec proofs (`Kanzi/Proofs/Block.lean`): bytes <-> bits, the 8-at-a-time
functions `toBytes` / `packFast` of `Kanzi/Model/Block.lean`, `packFast = packBytes`.
All names live in `Kanzi.Block` (no clash with the other lemma files about `Kanzi.Bits`).
-/
import Kanzi.Model.Block
import Kanzi.Proofs.BitsLemmas

namespace Kanzi.Block
open Kanzi.Bits

/-! ### natBits / bitsNat -/

theorem bitsNat_lt (l : Bits) : bitsNat l < 2 ^ l.length := by
  induction l with
  | nil => simp [bitsNat]
  | cons b l ih =>
    rw [bitsNat_cons, List.length_cons, Nat.pow_succ]
    have : b.toNat ≤ 1 := by cases b <;> simp
    have : b.toNat * 2 ^ l.length ≤ 1 * 2 ^ l.length := Nat.mul_le_mul_right _ this
    omega

theorem natBits_mod (v n : Nat) : natBits (v % 2 ^ n) n = natBits v n := by
  unfold natBits
  apply List.map_congr_left
  intro i hi
  have : i < n := List.mem_range.mp hi
  rw [Nat.testBit_mod_two_pow]
  simp; omega

theorem natBits_bitsNat (l : Bits) : natBits (bitsNat l) l.length = l := by
  induction l with
  | nil => simp [natBits]
  | cons b l ih =>
    have hlt := bitsNat_lt l
    rw [List.length_cons, natBits_succ, bitsNat_cons]
    congr 1
    · rw [Nat.mul_comm, Nat.testBit_two_pow_mul_add _ hlt]
      cases b <;> simp
    · rw [← natBits_mod, Nat.mul_comm, Nat.mul_add_mod_self_left, Nat.mod_eq_of_lt hlt, ih]

theorem natBits_bitsNat_len (l : Bits) (n : Nat) (h : l.length = n) : natBits (bitsNat l) n = l := by
  subst h; exact natBits_bitsNat l

theorem natBits_eight (v : Nat) :
    natBits v 8 = [v.testBit 7, v.testBit 6, v.testBit 5, v.testBit 4, v.testBit 3, v.testBit 2,
      v.testBit 1, v.testBit 0] := by
  unfold natBits; rfl

/-! ### ofBytes -/

theorem ofBytes_nil : ofBytes [] = [] := rfl

theorem ofBytes_cons (b : Nat) (l : List Nat) : ofBytes (b :: l) = natBits b 8 ++ ofBytes l := by
  simp [ofBytes]

theorem ofBytes_append (l₁ l₂ : List Nat) : ofBytes (l₁ ++ l₂) = ofBytes l₁ ++ ofBytes l₂ := by
  simp [ofBytes]

theorem ofBytes_length (l : List Nat) : (ofBytes l).length = 8 * l.length := by
  induction l with
  | nil => rfl
  | cons b l ih => rw [ofBytes_cons, List.length_append, natBits_length, ih, List.length_cons]; omega

/-! ### toBytes -/

theorem toBytes_cons8 (b0 b1 b2 b3 b4 b5 b6 b7 : Bool) (rest : Bits) :
    toBytes (b0 :: b1 :: b2 :: b3 :: b4 :: b5 :: b6 :: b7 :: rest) =
      bitsNat [b0, b1, b2, b3, b4, b5, b6, b7] :: toBytes rest := by
  rw [toBytes]

theorem toBytes_natBits_append (v : Nat) (rest : Bits) :
    toBytes (natBits v 8 ++ rest) = v % 256 :: toBytes rest := by
  rw [natBits_eight]
  simp only [List.cons_append, List.nil_append, toBytes_cons8]
  rw [← natBits_eight, bitsNat_natBits]

theorem toBytes_ofBytes (l : List Nat) (h : ∀ b ∈ l, b < 256) : toBytes (ofBytes l) = l := by
  induction l with
  | nil => simp [ofBytes, toBytes]
  | cons b l ih =>
    rw [ofBytes_cons, toBytes_natBits_append, ih (fun x hx => h x (by simp [hx]))]
    rw [Nat.mod_eq_of_lt (h b (by simp))]

/-! ### packFast -/

theorem packFast_cons8 (b0 b1 b2 b3 b4 b5 b6 b7 : Bool) (rest : Bits) :
    packFast (b0 :: b1 :: b2 :: b3 :: b4 :: b5 :: b6 :: b7 :: rest) =
      bitsNat [b0, b1, b2, b3, b4, b5, b6, b7] :: packFast rest := by
  rw [packFast]

theorem packFast_nil : packFast [] = [] := by rw [packFast]

theorem packFast_short (l : Bits) (h0 : l ≠ []) (h : l.length < 8) :
    packFast l = [bitsNat (l ++ List.replicate (8 - l.length) false)] := by
  rcases l with _ | ⟨b0, _ | ⟨b1, _ | ⟨b2, _ | ⟨b3, _ | ⟨b4, _ | ⟨b5, _ | ⟨b6, _ | ⟨b7, rest⟩⟩⟩⟩⟩⟩⟩⟩
  · exact absurd rfl h0
  all_goals first
    | (simp only [List.length_cons] at h; omega)
    | (rw [packFast] <;> simp)

theorem cons8_of_length (l : Bits) (h : 8 ≤ l.length) :
    ∃ b0 b1 b2 b3 b4 b5 b6 b7 rest, l = b0 :: b1 :: b2 :: b3 :: b4 :: b5 :: b6 :: b7 :: rest := by
  rcases l with _ | ⟨b0, _ | ⟨b1, _ | ⟨b2, _ | ⟨b3, _ | ⟨b4, _ | ⟨b5, _ | ⟨b6, _ | ⟨b7, rest⟩⟩⟩⟩⟩⟩⟩⟩
  all_goals first
    | (simp only [List.length_cons, List.length_nil] at h; omega)
    | exact ⟨_, _, _, _, _, _, _, _, _, rfl⟩

/-- the zero padding `Close` adds -/
def padLen (n : Nat) : Nat := (8 - n % 8) % 8

theorem padLen_lt (n : Nat) : padLen n < 8 := by unfold padLen; omega

theorem ofBytes_packFast (bs : Bits) :
    ofBytes (packFast bs) = bs ++ List.replicate (padLen bs.length) false := by
  induction hn : bs.length using Nat.strongRecOn generalizing bs with
  | _ n ih =>
    subst hn
    by_cases h8 : 8 ≤ bs.length
    · obtain ⟨b0, b1, b2, b3, b4, b5, b6, b7, rest, rfl⟩ := cons8_of_length bs h8
      rw [packFast_cons8, ofBytes_cons,
        natBits_bitsNat_len [b0, b1, b2, b3, b4, b5, b6, b7] 8 rfl,
        ih rest.length (by simp only [List.length_cons]; omega) rest rfl]
      have : padLen (b0 :: b1 :: b2 :: b3 :: b4 :: b5 :: b6 :: b7 :: rest).length = padLen rest.length := by
        unfold padLen; simp only [List.length_cons]; omega
      rw [this]; simp
    · by_cases h0 : bs = []
      · subst h0; simp [packFast_nil, ofBytes, padLen]
      · have hpos : 0 < bs.length := List.length_pos_iff.mpr h0
        rw [packFast_short bs h0 (by omega), ofBytes_cons, ofBytes_nil, List.append_nil,
          natBits_bitsNat_len _ 8 (by simp; omega)]
        have : padLen bs.length = 8 - bs.length := by unfold padLen; omega
        rw [this]

theorem packFast_lt (bs : Bits) : ∀ b ∈ packFast bs, b < 256 := by
  induction hn : bs.length using Nat.strongRecOn generalizing bs with
  | _ n ih =>
    subst hn
    by_cases h8 : 8 ≤ bs.length
    · obtain ⟨b0, b1, b2, b3, b4, b5, b6, b7, rest, rfl⟩ := cons8_of_length bs h8
      rw [packFast_cons8]
      intro b hb
      rcases List.mem_cons.mp hb with rfl | hb
      · have := bitsNat_lt [b0, b1, b2, b3, b4, b5, b6, b7]
        simpa using this
      · exact ih rest.length (by simp only [List.length_cons]; omega) rest rfl b hb
    · by_cases h0 : bs = []
      · subst h0; simp [packFast_nil]
      · have hpos : 0 < bs.length := List.length_pos_iff.mpr h0
        rw [packFast_short bs h0 (by omega)]
        intro b hb
        rw [List.mem_singleton] at hb
        subst hb
        have := bitsNat_lt (bs ++ List.replicate (8 - bs.length) false)
        simp only [List.length_append, List.length_replicate] at this
        have e : bs.length + (8 - bs.length) = 8 := by omega
        rw [e] at this; exact this

theorem packFast_length (bs : Bits) : (packFast bs).length = (bs.length + 7) / 8 := by
  have h := congrArg List.length (ofBytes_packFast bs)
  rw [ofBytes_length, List.length_append, List.length_replicate] at h
  unfold padLen at h
  omega

/-! ### packFast = packBytes -/

theorem packByte_cons8 (b0 b1 b2 b3 b4 b5 b6 b7 : Bool) (rest : Bits) (i : Nat) :
    packByte (b0 :: b1 :: b2 :: b3 :: b4 :: b5 :: b6 :: b7 :: rest) (i + 1) = packByte rest i := by
  unfold packByte
  have : 8 * (i + 1) = (8 * i) + 8 := by omega
  rw [this]
  simp only [List.drop_succ_cons]

theorem packFast_eq (bs : Bits) : packFast bs = packBytes bs := by
  induction hn : bs.length using Nat.strongRecOn generalizing bs with
  | _ n ih =>
    subst hn
    by_cases h8 : 8 ≤ bs.length
    · obtain ⟨b0, b1, b2, b3, b4, b5, b6, b7, rest, rfl⟩ := cons8_of_length bs h8
      rw [packFast_cons8, ih rest.length (by simp only [List.length_cons]; omega) rest rfl]
      unfold packBytes
      have e : ((b0 :: b1 :: b2 :: b3 :: b4 :: b5 :: b6 :: b7 :: rest).length + 7) / 8 =
          (rest.length + 7) / 8 + 1 := by simp only [List.length_cons]; omega
      rw [e, List.range_succ_eq_map, List.map_cons, List.map_map]
      have hd : packByte (b0 :: b1 :: b2 :: b3 :: b4 :: b5 :: b6 :: b7 :: rest) 0 =
          bitsNat [b0, b1, b2, b3, b4, b5, b6, b7] := by
        simp [packByte]
      have tl : List.map (packByte (b0 :: b1 :: b2 :: b3 :: b4 :: b5 :: b6 :: b7 :: rest) ∘ Nat.succ)
            (List.range ((rest.length + 7) / 8)) =
          List.map (packByte rest) (List.range ((rest.length + 7) / 8)) := by
        apply List.map_congr_left
        intro i _
        simp only [Function.comp, Nat.succ_eq_add_one]
        rw [packByte_cons8]
      rw [hd, tl]
    · by_cases h0 : bs = []
      · subst h0; simp [packFast_nil, packBytes]
      · have hpos : 0 < bs.length := List.length_pos_iff.mpr h0
        rw [packFast_short bs h0 (by omega)]
        unfold packBytes
        have e : (bs.length + 7) / 8 = 1 := by omega
        rw [e]
        simp only [List.range_succ, List.range_zero, List.nil_append, List.map_cons, List.map_nil]
        unfold packByte
        simp only [Nat.mul_zero, List.drop_zero]
        rw [List.take_of_length_le (by omega)]

/-- the bits of the packed image: the bit string, zero padded to a byte -/
theorem ofBytes_packBytes (bs : Bits) :
    ofBytes (packBytes bs) = bs ++ List.replicate (padLen bs.length) false := by
  rw [← packFast_eq, ofBytes_packFast]

theorem packBytes_length (bs : Bits) : (packBytes bs).length = (bs.length + 7) / 8 := by
  simp [packBytes]

end Kanzi.Block
