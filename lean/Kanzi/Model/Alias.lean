/-
Model of the alias codec `transform.AliasCodec` (v2/transform/AliasCodec.go, transform names "PACK" and
"DNA"), slice `alias`, property C13.

  * `aliasMaxEncodedLen`                 Go `AliasCodec.MaxEncodedLen`
  * `aliasForward onlyDNA dt src n`      Go `AliasCodec.Forward(src, dst)` with `len(dst) = n`
  * `aliasCtxWrite onlyDNA dt src n`     the value Forward stores into the ctx entry `dataType` (if any)
  * `aliasInverse src n`                 Go `AliasCodec.Inverse(src, dst)` with `len(dst) = n`

Core Lean only (linked into `kmodel`).  Bytes are `Nat` (< 256).  The source is a `List Nat`; every Go
loop over the source is a structural recursion over the part of the source that is still to be read (the
Go `src[srcIdx:]`), so a read `src[srcIdx + k]` is a pattern match on the first elements of that list
and a read beyond the end is the `.fault "src-index"` fall-through case.  The destination is the
`Array Nat` of the bytes written so far (`out.size` is the Go `dstIdx`); every Go store is
`dst[dstIdx] = v; dstIdx++`, i.e. `wr` (append, `.fault "dst-index"` when `dstIdx ≥ len(dst)`).  The only
store that is not an append is the patch `dst[1] = 1` of the digram path (`Array.setIfInBounds`).

Outcomes (`Kanzi.RLT.Out`): `.ok` = nil error, `.err c` = non-nil Go error of class `c` (Forward
"declines", Inverse "fails"), `.fault` = a Go run-time panic (index / slice bounds out of range).

The two constructor parameters are explicit arguments of `aliasForward`:
  `onlyDNA`  the ctx entry `packOnlyDNA` (`true` for the transform name "DNA": Factory.go stores it before
             calling `NewAliasCodecWithCtx`; `false` for "PACK" and for `NewAliasCodec()`);
  `dt`       the ctx entry `dataType` (0 = DT_UNDEFINED = no ctx, no entry, or an explicit DT_UNDEFINED).
`NewAliasCodec()` (nil ctx) is `onlyDNA = false, dt = 0`: with a nil ctx the Go code skips the early
type checks, and with `dt = 0` none of them fires.

Modelling notes (all justified by the Go code, none changes an observable result):
  * `internal.ComputeHistogram(src, freqs1, false, false)` walks the block in four interleaved quarters;
    the k-th quarter starts with `prv = block[n_k - 1]` (`prv = 0` for the first), so the histogram it
    computes is that of the keys `256 * block[i-1] + block[i]` (`block[-1] = 0`): `pairHist`.
  * `slices.SortStableFunc` with a comparator that is a total strict order on entries with distinct
    `val` has exactly one possible result: `sortSymb` (merge sort with the same comparator).
  * `map8`, `map16`, `decodeMap` are arrays in Go; `map8` and the two `decodeMap`s are functions here.
  * the emit loop advances by `alias >> 8`, which is 1 (default entry `0x100 | hi`) or 2 (`0x200 | alias`).
  * `copy(dst[dstIdx:], src[srcIdx:srcIdx+k])`: Forward: a short copy (destination too small) is always
    followed by a store beyond `len(dst)`, so it is a `.fault` here.  Inverse: see `aliasInverse`.
  * slices have `cap = len` (a slice expression `src[a:b]` with `b > len(src)` is a fault).
  * not modelled: the aliasing test `&src[0] == &dst[0]` (callers own two distinct buffers); a `dataType`
    ctx entry that is not an `internal.DataType` (type assertion panic).
-/
import Kanzi.Model.RLT

namespace Kanzi.Alias
open Kanzi.RLT

abbrev Res := Out (List Nat)

/-! ## constants -/

def MIN_BLOCKSIZE : Nat := 1024
def DT_MULTIMEDIA : Nat := 2
def DT_EXE : Nat := 3

/-- Go: `AliasCodec.MaxEncodedLen` -/
def aliasMaxEncodedLen (srcLen : Nat) : Nat := srcLen + 1024

/-! ## order-0 alphabet -/

/-- Go: `absent[0:n0]`: the byte values with frequency 0, increasing -/
def absentSyms (freqs : Array Nat) : List Nat := (List.range 256).filter (fun i => fq freqs i = 0)

/-- the byte values with a non-zero frequency, increasing (Go: the order in which `map8` is filled) -/
def presentSyms (freqs : Array Nat) : List Nat := (List.range 256).filter (fun i => fq freqs i ≠ 0)

/-- Go: `map8[x]` (`[256]byte`, zero for the symbols that do not occur) -/
def map8 (syms : List Nat) (x : Nat) : Nat := if x ∈ syms then syms.idxOf x else 0

/-- Go: `(map8[a] << 6) | (map8[b] << 4) | (map8[c] << 2) | map8[d]` in `byte` arithmetic -/
def pack4 (syms : List Nat) (a b c d : Nat) : Nat :=
  ((map8 syms a <<< 6) % 256) ||| ((map8 syms b <<< 4) % 256) ||| ((map8 syms c <<< 2) % 256) ||| map8 syms d

/-- Go: `(map8[a] << 4) | map8[b]` in `byte` arithmetic -/
def pack2 (syms : List Nat) (a b : Nat) : Nat := ((map8 syms a <<< 4) % 256) ||| map8 syms b

/-- Go: `for srcIdx < count { dst[dstIdx] = pack(src[srcIdx .. srcIdx+3]); srcIdx += 4; dstIdx++ }` -/
def pack4Loop (syms : List Nat) (dstEnd : Nat) : List Nat → Array Nat → Out (Array Nat)
  | [], out => .ok out
  | a :: b :: c :: d :: tl, out =>
    match wr dstEnd out [pack4 syms a b c d] with
    | .ok o => pack4Loop syms dstEnd tl o
    | .err e => .err e
    | .fault e => .fault e
  | _, _ => .fault "src-index"

/-- Go: `for srcIdx < count { dst[dstIdx] = pack(src[srcIdx], src[srcIdx+1]); srcIdx += 2; dstIdx++ }` -/
def pack2Loop (syms : List Nat) (dstEnd : Nat) : List Nat → Array Nat → Out (Array Nat)
  | [], out => .ok out
  | a :: b :: tl, out =>
    match wr dstEnd out [pack2 syms a b] with
    | .ok o => pack2Loop syms dstEnd tl o
    | .err e => .err e
    | .fault e => .fault e
  | _, _ => .fault "src-index"

/-- Go: `binary.LittleEndian.PutUint32(_, uint32(v))`: the four bytes stored -/
def le32Bytes (v : Nat) : List Nat :=
  [v % 256, (v >>> 8) % 256, (v >>> 16) % 256, (v >>> 24) % 256]

/-- Go: the branch `n0 >= 240` of Forward ("Small alphabet => pack bits"), `n0 = absent count` -/
def fwdPack (src : List Nat) (dstEnd : Nat) (freqs : Array Nat) (n0 : Nat) : Out (Array Nat) :=
  (wr dstEnd #[] [n0 % 256]).bind fun o0 =>
    if n0 = 255 then
      -- one symbol
      match src with
      | [] => .fault "src-index"
      | s0 :: _ => (wr dstEnd o0 [s0]).bind fun o1 => wr dstEnd o1 (le32Bytes src.length)
    else
      let syms := presentSyms freqs
      (wr dstEnd o0 syms).bind fun o1 =>
        if n0 ≥ 252 then
          -- 4 symbols or less
          let c3 := src.length % 4
          (wr dstEnd o1 [c3]).bind fun o2 =>
            (wr dstEnd o2 (src.take c3)).bind fun o3 => pack4Loop syms dstEnd (src.drop c3) o3
        else
          -- 16 symbols or less
          let c1 := src.length % 2
          (wr dstEnd o1 [c1]).bind fun o2 =>
            (wr dstEnd o2 (src.take c1)).bind fun o3 => pack2Loop syms dstEnd (src.drop c1) o3

/-! ## digrams -/

/-- Go: `internal.ComputeHistogram(src, freqs1, false, false)` (order 1, no totals), `prev` = previous byte -/
def pairHistGo : Nat → List Nat → Array Nat → Array Nat
  | _, [], a => a
  | prev, x :: tl, a => pairHistGo x tl (a.modify ((prev <<< 8) + x) (· + 1))

def pairHist (src : List Nat) : Array Nat := pairHistGo 0 src (Array.replicate 65536 0)

/-- Go: `symb[0:n1]` before the sort: `(val, freq)` for every pair value with a non-zero frequency,
    increasing `val` -/
def symbList (h : Array Nat) : List (Nat × Nat) :=
  (List.range 65536).filterMap (fun i => if fq h i = 0 then none else some (i, fq h i))

/-- Go: the comparator of `slices.SortStableFunc` is `≤ 0`: decreasing frequency, then decreasing value -/
def sdLe (a b : Nat × Nat) : Bool := decide (a.2 > b.2) || (a.2 == b.2 && decide (a.1 ≥ b.1))

def sortSymb (l : List (Nat × Nat)) : List (Nat × Nat) := l.mergeSort sdLe

/-- Go: `map16` after `for i := range &map16 { map16[i] = int16(0x100 | (i >> 8)) }` -/
def map16Init : Array Nat := Array.ofFn (n := 65536) (fun i => 0x100 ||| (i.val >>> 8))

/-- Go: `map16` after the header loop (`map16[idx] = int16(0x200 | absent[i])`), `entries` = the
    `(symb[i].val, absent[i])` for `i < n0` -/
def mkMap16 (entries : List (Nat × Nat)) : Array Nat :=
  entries.foldl (fun m e => m.setIfInBounds e.1 (0x200 ||| e.2)) map16Init

/-- Go: the three header bytes per entry: `byte(idx >> 8)`, `byte(idx)`, `byte(absent[i])` -/
def headerBytes : List (Nat × Nat) → List Nat
  | [] => []
  | e :: tl => (e.1 >>> 8) % 256 :: e.1 % 256 :: e.2 % 256 :: headerBytes tl

/-- Go: `for srcIdx < srcEnd { alias := map16[src[srcIdx]<<8 | src[srcIdx+1]]; dst[dstIdx] = byte(alias);
    srcIdx += int(alias >> 8); dstIdx++ }` with `srcEnd = count - 1`; returns the byte that is left over
    (`srcIdx != count` after the loop), if any -/
def emitFrom (m : Array Nat) (dstEnd : Nat) : Nat → List Nat → Array Nat → Out (Option Nat × Array Nat)
  | a, [], out => .ok (some a, out)
  | a, b :: tl, out =>
    match wr dstEnd out [(m.getD ((a <<< 8) ||| b) 0) % 256] with
    | .ok o =>
      if (m.getD ((a <<< 8) ||| b) 0) >>> 8 = 2 then
        match tl with
        | [] => .ok (none, o)
        | c :: tl2 => emitFrom m dstEnd c tl2 o
      else emitFrom m dstEnd b tl o
    | .err e => .err e
    | .fault e => .fault e

/-- the emit loop from `srcIdx = 0` (`emitFrom m dstEnd a rest` = the loop at a position where `a` is the
    current byte and `rest` what follows it) -/
def emitLoop (m : Array Nat) (dstEnd : Nat) (src : List Nat) (out : Array Nat) : Out (Option Nat × Array Nat) :=
  match src with
  | [] => .ok (none, out)
  | a :: rest => emitFrom m dstEnd a rest out

/-- the `(pair value, alias)` entries of the header: Go `symb[i].val`, `absent[i]` for `i < n` -/
def selectEntries (sorted : List (Nat × Nat)) (absent : List Nat) (n : Nat) : List (Nat × Nat) :=
  ((sorted.take n).map (·.1)).zip absent

/-- Go: the branch "Digram encoding" of Forward -/
def fwdDigram (src : List Nat) (dstEnd : Nat) (absent : List Nat) : Out (Array Nat) :=
  let symb := symbList (pairHist src)
  let n1 := symb.length
  let n0 := absent.length
  if n0 > n1 ∧ n1 < 16 then .err "slots"
  else
    let n := if n0 > n1 then n1 else n0
    let sorted := sortSymb symb
    let entries := selectEntries sorted absent n
    let savings := ((sorted.take n).map (·.2)).sum
    (wr dstEnd #[] [n % 256, 0]).bind fun o0 =>
      (wr dstEnd o0 (headerBytes entries)).bind fun o1 =>
        if savings < src.length / 20 then .err "savings"
        else
          (emitLoop (mkMap16 entries) dstEnd src o1).bind fun r =>
            match r.1 with
            | none => .ok r.2
            | some x => wr dstEnd (r.2.setIfInBounds 1 1) [x]

/-! ## Forward -/

/-- the types for which Forward declines at once ("binary data") -/
def binaryType (dt : Nat) : Bool := dt = DT_MULTIMEDIA ∨ dt = DT_UTF8 ∨ dt = DT_EXE ∨ dt = DT_BIN

/-- Go: `AliasCodec.Forward(src, dst)` with `len(dst) = dstLen` -/
def aliasForward (onlyDNA : Bool) (dt : Nat) (src : List Nat) (dstLen : Nat) : Res :=
  if src.length = 0 ∨ dstLen = 0 then .ok []
  else if dstLen < aliasMaxEncodedLen src.length then .err "dst"
  else if src.length < MIN_BLOCKSIZE then .err "small"
  else if binaryType dt then .err "binary"
  else if onlyDNA ∧ dt ≠ DT_UNDEFINED ∧ dt ≠ DT_DNA then .err "notdna"
  else
    let freqs := histogram src
    let absent := absentSyms freqs
    if absent.length < 16 then .err "slots"
    else if dt = DT_UNDEFINED ∧ detectSimpleType src.length freqs ≠ DT_DNA ∧ onlyDNA then .err "notdna"
    else
      (if absent.length ≥ 240 then fwdPack src dstLen freqs absent.length
       else fwdDigram src dstLen absent).bind fun o =>
        if o.size ≥ src.length then .err "savings" else .ok o.toList

/-- Go: the value stored by `(*this.ctx)["dataType"] = dt` during `Forward` (when a ctx is present), if
    any: the detected type when it is not DT_UNDEFINED -/
def aliasCtxWrite (onlyDNA : Bool) (dt : Nat) (src : List Nat) (dstLen : Nat) : Option Nat :=
  if src.length = 0 ∨ dstLen = 0 ∨ dstLen < aliasMaxEncodedLen src.length ∨ src.length < MIN_BLOCKSIZE
      ∨ binaryType dt ∨ (onlyDNA ∧ dt ≠ DT_UNDEFINED ∧ dt ≠ DT_DNA) then none
  else
    let freqs := histogram src
    if (absentSyms freqs).length < 16 ∨ dt ≠ DT_UNDEFINED then none
    else
      let k := detectSimpleType src.length freqs
      if k ≠ DT_UNDEFINED then some k else none

/-! ## Inverse -/

/-- Go: `idx2symb[k]` (`[16]byte`, only the first `n` entries are set) -/
def i2s (idx2symb : List Nat) (k : Nat) : Nat := idx2symb.getD k 0

/-- Go: `decodeMap[x]` of the "4 symbols or less" branch as the four bytes `PutUint32` stores -/
def decode4 (idx2symb : List Nat) (x : Nat) : List Nat :=
  [i2s idx2symb ((x >>> 6) &&& 3), i2s idx2symb ((x >>> 4) &&& 3), i2s idx2symb ((x >>> 2) &&& 3),
   i2s idx2symb (x &&& 3)]

/-- Go: `decodeMap[x]` of the "16 symbols or less" branch as the two bytes `PutUint16` stores -/
def decode2 (idx2symb : List Nat) (x : Nat) : List Nat :=
  [i2s idx2symb (x >>> 4), i2s idx2symb (x &&& 0x0F)]

/-- Go: `for srcIdx < srcEnd { binary.LittleEndian.PutUintNN(dst[dstIdx:], decodeMap[src[srcIdx]]);
    srcIdx++; dstIdx += k }` (`dec x` = the `k` bytes stored; panics when fewer than `k` bytes are left
    in `dst`) -/
def unpackLoop (dec : Nat → List Nat) (dstEnd : Nat) : List Nat → Array Nat → Out (Array Nat)
  | [], out => .ok out
  | x :: tl, out =>
    match wr dstEnd out (dec x) with
    | .ok o => unpackLoop dec dstEnd tl o
    | .err e => .err e
    | .fault e => .fault e

/-- Go: `map16` of Inverse after `for i := range &map16 { map16[i] = 0x10000 | i }` -/
def imapInit : Array Nat := Array.ofFn (n := 256) (fun i => 0x10000 ||| i.val)

/-- Go: the header loop of Inverse: `map16[src[k+2]] = 0x20000 | src[k] | (src[k+1] << 8)` over the
    `3 * n` header bytes -/
def mkImap : List Nat → Array Nat → Array Nat
  | a :: b :: c :: tl, m => mkImap tl (m.setIfInBounds c (0x20000 ||| a ||| (b <<< 8)))
  | _, m => m

/-- Go: `for srcIdx < srcEnd { val := map16[src[srcIdx]]; srcIdx++; dst[dstIdx] = byte(val);
    dst[dstIdx+1] = byte(val >> 8); dstIdx += val >> 16 }`: both stores are bounds checked, the second
    one also when only one byte is kept -/
def expandLoop (m : Array Nat) (dstEnd : Nat) : List Nat → Array Nat → Out (Array Nat)
  | [], out => .ok out
  | x :: tl, out =>
    if out.size + 1 < dstEnd then
      if (m.getD x 0) >>> 16 = 2 then
        expandLoop m dstEnd tl ((out.push ((m.getD x 0) % 256)).push (((m.getD x 0) >>> 8) % 256))
      else expandLoop m dstEnd tl (out.push ((m.getD x 0) % 256))
    else .fault "dst-index"

/-- Go: `AliasCodec.Inverse(src, dst)` with `len(dst) = dstLen`.

    `.ok l` with `l.length > dstLen` (possible only for the forged input described below) stands for:
    nil error, returned `dstIdx = l.length > len(dst)`, only `l.take dstLen` stored.  It arises in the "4
    symbols or less" branch: `copy(dst, src[srcIdx:srcIdx+adjust])` silently copies `min(adjust, len(dst))`
    bytes, `dstIdx += adjust` follows unconditionally, and when no packed byte follows the function returns. -/
def aliasInverse (src : List Nat) (dstLen : Nat) : Res :=
  if src.length = 0 ∨ dstLen = 0 then .ok []
  else if src.length < 2 then .err "small"
  else
    match src with
    | n0 :: s1 :: rest =>
      if n0 < 16 then .err "slots"
      else if n0 ≥ 240 then
        let n := 256 - n0
        if n = 1 then
          -- one symbol: `binary.LittleEndian.Uint32(src[2:])`
          match rest with
          | a :: b :: c :: d :: _ =>
            let oSize := a + 256 * b + 65536 * c + 16777216 * d
            if oSize > dstLen then .err "osize" else .ok (List.replicate oSize s1)
          | _ => .fault "src-index"
        else
          -- `idx2symb[i] = src[1 + i]` for `i < n`, then `adjust = src[1 + n]`
          let body := s1 :: rest
          match body.drop n with
          | [] => .fault "src-index"
          | adjust :: data =>
            let idx2symb := body.take n
            if adjust > 3 then .err "data"
            else if n ≤ 4 then
              -- 4 symbols or less: `copy(dst[dstIdx:], src[srcIdx:srcIdx+adjust])`
              if data.length < adjust then .fault "src-slice"
              else if adjust > dstLen then
                (if data.length > adjust then .fault "dst-slice" else .ok (data.take adjust))
              else
                (unpackLoop (decode4 idx2symb) dstLen (data.drop adjust) (data.take adjust).toArray).bind
                  fun o => .ok o.toList
            else
              -- 16 symbols or less
              if adjust ≠ 0 then
                match data with
                | [] => .fault "src-index"
                | x :: tl =>
                  (wr dstLen #[] [x]).bind fun o0 =>
                    (unpackLoop (decode2 idx2symb) dstLen tl o0).bind fun o => .ok o.toList
              else (unpackLoop (decode2 idx2symb) dstLen data #[]).bind fun o => .ok o.toList
      else
        -- digrams: header of `3 * n0` bytes, `srcEnd = len(src) - src[1]`
        if rest.length < 3 * n0 then .fault "src-index"
        else
          let m := mkImap (rest.take (3 * n0)) imapInit
          let data := rest.drop (3 * n0)
          let k := data.length - s1
          (expandLoop m dstLen (data.take k) #[]).bind fun o =>
            if s1 ≠ 0 then
              match data.drop k with
              | [] => .fault "src-index"
              | x :: _ => (wr dstLen o [x]).bind fun o2 => .ok o2.toList
            else .ok o.toList
    | _ => .fault "src-index"

end Kanzi.Alias
