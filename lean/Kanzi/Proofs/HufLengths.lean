/-
Proofs for the Huffman codec, part 3c: `computeCodeLengths` (sort + phase 1 + phase 2 + store).
For every list `ranks[i] = (w_i << 8) | s_i` with distinct symbols `s_i < 256` and positive
weights it succeeds; the stored lengths satisfy Kraft's equality, lie in `[1, maxLen]`, are non
increasing along the returned `ranks`, and nothing else of `sizes` is touched.
-/
import Kanzi.Model.Huffman
import Kanzi.Proofs.EntSmall
import Kanzi.Proofs.HufPhase2
import Mathlib.Data.List.Perm.Basic
import Mathlib.Data.List.Nodup

namespace Kanzi.Huffman
open Kanzi.EntSmall

theorem rank_fields (w s : Nat) (hs : s < 256) :
    ((w <<< 8) ||| s) >>> 8 = w ∧ ((w <<< 8) ||| s) &&& 0xFF = s := by
  rw [Nat.or_comm, or_shiftLeft s w 8 (by simpa using hs)]
  constructor
  · rw [Nat.shiftRight_eq_div_pow]; omega
  · have := Nat.and_two_pow_sub_one_eq_mod (s + w * 2 ^ 8) 8
    simp only [Nat.reducePow, Nat.add_one_sub_one] at this
    rw [this]; omega

/-! ### `setSizes` -/

theorem setSizes_cons (sizes : List Nat) (s x : Nat) (ss xs : List Nat) :
    setSizes sizes (s :: ss) (x :: xs) = setSizes (sizes.set s (x % 256)) ss xs := by
  simp [setSizes]

theorem setSizes_length : ∀ (syms lens sizes : List Nat), (setSizes sizes syms lens).length = sizes.length := by
  intro syms
  induction syms with
  | nil => intro lens sizes; simp [setSizes]
  | cons s ss ih =>
    intro lens sizes
    cases lens with
    | nil => simp [setSizes]
    | cons x xs => rw [setSizes_cons, ih]; simp

theorem setSizes_frame : ∀ (syms lens sizes : List Nat) (y : Nat), y ∉ syms →
    (setSizes sizes syms lens).getD y 0 = sizes.getD y 0 := by
  intro syms
  induction syms with
  | nil => intro lens sizes y _; simp [setSizes]
  | cons s ss ih =>
    intro lens sizes y hy
    cases lens with
    | nil => simp [setSizes]
    | cons x xs =>
      rw [setSizes_cons, ih _ _ _ (fun h => hy (List.mem_cons_of_mem _ h))]
      exact getD_set_ne _ _ _ _ (fun h => hy (h ▸ List.mem_cons_self))

theorem setSizes_map : ∀ (syms lens sizes : List Nat), syms.Nodup → syms.length = lens.length →
    (∀ s ∈ syms, s < sizes.length) → (∀ x ∈ lens, x < 256) →
    syms.map (fun s => (setSizes sizes syms lens).getD s 0) = lens := by
  intro syms
  induction syms with
  | nil => intro lens sizes _ hl _ _; cases lens with
    | nil => rfl
    | cons _ _ => simp at hl
  | cons s ss ih =>
    intro lens sizes hnd hl hlt hx
    cases lens with
    | nil => simp at hl
    | cons x xs =>
      have hnd' := List.nodup_cons.mp hnd
      rw [setSizes_cons, List.map_cons]
      congr 1
      · rw [setSizes_frame _ _ _ _ hnd'.1, getD_set_self _ _ _ (hlt s List.mem_cons_self)]
        exact Nat.mod_eq_of_lt (hx x List.mem_cons_self)
      · exact ih xs _ hnd'.2 (by simpa using hl)
          (fun y hy => by rw [List.length_set]; exact hlt y (List.mem_cons_of_mem _ hy))
          (fun y hy => hx y (List.mem_cons_of_mem _ hy))

/-! ### the result of `computeCodeLengths` -/

/-- the lengths of the symbols `l` under `sizes` -/
def lensOf (sizes l : List Nat) : List Nat := l.map (fun s => sizes.getD s 0)

structure CLOk (sizes0 symbols : List Nat) (cl : CL) : Prop where
  perm : cl.ranks.Perm symbols
  len : cl.sizes.length = sizes0.length
  frame : ∀ x, x ∉ symbols → cl.sizes.getD x 0 = sizes0.getD x 0
  kraft : wsum 256 (lensOf cl.sizes cl.ranks) = 2 ^ 256
  range : ∀ s ∈ symbols, 1 ≤ cl.sizes.getD s 0 ∧ cl.sizes.getD s 0 ≤ cl.maxLen
  mono : (lensOf cl.sizes cl.ranks).Pairwise (· ≥ ·)
  mle : cl.maxLen + 1 ≤ symbols.length

theorem computeCodeLengths_spec (sizes0 ranks symbols : List Nat)
    (hsym : ranks.map (· &&& 0xFF) = symbols) (hw : ∀ r ∈ ranks, 0 < r >>> 8)
    (hnd : symbols.Nodup) (h256 : ∀ s ∈ symbols, s < 256)
    (hn : 2 ≤ symbols.length) (hn2 : symbols.length ≤ 256) (hl : sizes0.length = 256) :
    ∃ cl, computeCodeLengths sizes0 ranks = some cl ∧ CLOk sizes0 symbols cl := by
  unfold computeCodeLengths
  have hperm := List.mergeSort_perm ranks (fun a b => decide (a ≤ b))
  generalize ranks.mergeSort (fun a b => decide (a ≤ b)) = sorted at hperm ⊢
  have hpsym : (sorted.map (· &&& 0xFF)).Perm symbols := by rw [← hsym]; exact hperm.map _
  have hslen : sorted.length = symbols.length := by
    rw [hperm.length_eq, ← hsym, List.length_map]
  have hany : (sorted.map (· >>> 8)).any (· == 0) = false := by
    rw [List.any_eq_false]
    intro x hx
    obtain ⟨r, hr, rfl⟩ := List.mem_map.mp hx
    have := hw r (hperm.mem_iff.mp hr)
    simp only [beq_iff_eq]
    omega
  rw [hany]
  simp only [Bool.false_eq_true, if_false]
  obtain ⟨res, m, hres, hok⟩ := lengths_spec (sorted.map (· >>> 8)) 256
    (by rw [List.length_map]; omega) (by rw [List.length_map]; omega)
  rw [hres]
  rw [List.length_map, hslen] at hok
  refine ⟨_, rfl, ?_⟩
  have hnd' : (sorted.map (· &&& 0xFF)).Nodup := (hpsym.nodup_iff).mpr hnd
  have hmap := setSizes_map (sorted.map (· &&& 0xFF)) res sizes0 hnd'
    (by rw [List.length_map, hslen, hok.len])
    (fun s hs => by rw [hl]; exact h256 s (hpsym.mem_iff.mp hs))
    (fun x hx => by have := hok.range x hx; have := hok.mle; omega)
  refine ⟨hpsym, by simp only; rw [setSizes_length], ?_, ?_, ?_, ?_, hok.mle⟩
  · intro x hx
    exact setSizes_frame _ _ _ _ (fun h => hx (hpsym.mem_iff.mp h))
  · simp only [lensOf]; rw [hmap]; exact hok.kraft
  · intro s hs
    have hs' : s ∈ sorted.map (· &&& 0xFF) := hpsym.mem_iff.mpr hs
    have hmem : (setSizes sizes0 (sorted.map (· &&& 0xFF)) res).getD s 0 ∈
        (sorted.map (· &&& 0xFF)).map (fun s => (setSizes sizes0 (sorted.map (· &&& 0xFF)) res).getD s 0) :=
      List.mem_map.mpr ⟨s, hs', rfl⟩
    rw [hmap] at hmem
    exact hok.range _ hmem
  · simp only [lensOf]; rw [hmap]; exact hok.mono

end Kanzi.Huffman
