/-
Proofs for the Huffman codec, part 3e: `HuffmanEncoder.updateFrequencies` as a whole.  For EVERY
histogram (256 counts) it succeeds, whatever branch it takes (single symbol, plain lengths, fast
limiting, renormalisation, last resort): the lengths of the alphabet lie in [1, 12] and satisfy
Kraft's inequality, the codes are the canonical codes of these lengths (what the decoder
rebuilds), and the header is the alphabet followed by the length deltas.
-/
import Kanzi.Model.Huffman
import Kanzi.Proofs.EntSmall
import Kanzi.Proofs.Normalize
import Kanzi.Proofs.HufCanon
import Kanzi.Proofs.HufLimit

namespace Kanzi.Huffman
open Kanzi.Bits Kanzi.EntSmall Kanzi.Normalize

/-! ### the alphabet of a histogram -/

structure AlphaOk (freqs a : List Nat) : Prop where
  sorted : a.Pairwise (· < ·)
  lt : ∀ s ∈ a, s < 256
  pos : ∀ s ∈ a, 0 < freqs.getD s 0
  len : a.length ≤ 256

theorem AlphaOk.nodup {freqs a : List Nat} (h : AlphaOk freqs a) : a.Nodup :=
  List.Pairwise.imp (fun hab => Nat.ne_of_lt hab) h.sorted

theorem support_alpha (freqs : List Nat) (hl : freqs.length = 256) : AlphaOk freqs (support freqs) := by
  refine ⟨pairwise_supportAux freqs 0, ?_, ?_, ?_⟩
  · intro s hs; have := (mem_support freqs s).mp hs; omega
  · intro s hs; have := (mem_support freqs s).mp hs; omega
  · unfold support
    rw [length_supportAux, ← hl]
    exact List.length_filter_le _ _

/-! ### from Kraft in units of 2^-256 to `LensOk` -/

theorem unit12_pos : 0 < unit12 := Nat.pow_pos (by decide)

theorem pow256 : 2 ^ 256 = 4096 * unit12 := by unfold unit12; norm_num

theorem lensOk_of_kraftM (sizes symbols : List Nat) (hnd : symbols.Nodup) (h256 : ∀ s ∈ symbols, s < 256)
    (hr : ∀ s ∈ symbols, 1 ≤ sizes.getD s 0 ∧ sizes.getD s 0 ≤ 12)
    (hk : kraftM 256 sizes symbols ≤ 2 ^ 256) : LensOk sizes symbols := by
  refine ⟨hnd, h256, hr, ?_⟩
  rw [kraftM_eq_kraft12 sizes symbols (fun s hs => (hr s hs).2), pow256] at hk
  exact Nat.le_of_mul_le_mul_right hk unit12_pos

theorem LensOk.perm {sizes l1 l2 : List Nat} (h : LensOk sizes l1) (hp : l2.Perm l1) : LensOk sizes l2 :=
  ⟨hp.nodup_iff.mpr h.nodup, fun s hs => h.lt256 s (hp.mem_iff.mp hs), fun s hs => h.range s (hp.mem_iff.mp hs),
   by rw [kraft12_perm sizes hp]; exact h.kraft⟩

theorem lensOk_of_cl (sizes0 symbols : List Nat) (cl : CL) (h : CLOk sizes0 symbols cl) (hm : cl.maxLen ≤ 12)
    (hnd : symbols.Nodup) (h256 : ∀ s ∈ symbols, s < 256) : LensOk cl.sizes symbols := by
  refine lensOk_of_kraftM _ _ hnd h256 (fun s hs => by have := h.range s hs; omega) ?_
  rw [← kraftM_perm 256 cl.sizes h.perm]
  exact Nat.le_of_eq h.kraft

/-! ### the ranks handed to `computeCodeLengths` -/

theorem ranks_syms (f : Nat → Nat) : ∀ (symbols : List Nat), (∀ s ∈ symbols, s < 256) →
    (symbols.map (fun s => (f s <<< 8) ||| s)).map (· &&& 0xFF) = symbols := by
  intro symbols h
  rw [List.map_map]
  conv => rhs; rw [← List.map_id symbols]
  apply List.map_congr_left
  intro s hs
  exact (rank_fields (f s) s (h s hs)).2

theorem zip_ranks_syms : ∀ (ws symbols : List Nat), ws.length = symbols.length → (∀ s ∈ symbols, s < 256) →
    ((ws.zip symbols).map (fun p => (p.1 <<< 8) ||| p.2)).map (· &&& 0xFF) = symbols := by
  intro ws
  induction ws with
  | nil => intro symbols hl _; cases symbols with
    | nil => rfl
    | cons _ _ => simp at hl
  | cons w ws ih =>
    intro symbols hl h
    cases symbols with
    | nil => simp at hl
    | cons s ss =>
      simp only [List.zip_cons_cons, List.map_cons]
      rw [(rank_fields w s (h s List.mem_cons_self)).2,
        ih ss (by simpa using hl) (fun x hx => h x (List.mem_cons_of_mem _ hx))]

theorem zip_ranks_pos : ∀ (ws symbols : List Nat), (∀ w ∈ ws, 0 < w) → (∀ s ∈ symbols, s < 256) →
    ∀ r ∈ (ws.zip symbols).map (fun p => (p.1 <<< 8) ||| p.2), 0 < r >>> 8 := by
  intro ws symbols hw hs r hr
  obtain ⟨p, hp, rfl⟩ := List.mem_map.mp hr
  have h1 := List.of_mem_zip hp
  rw [(rank_fields p.1 p.2 (hs p.2 h1.2)).1]
  exact hw p.1 h1.1

/-! ### `limitCodeLengths` -/

/-- what `updateFrequencies` needs from the lengths it is going to transmit -/
structure SizesOk (sizes0 symbols : List Nat) (cl : CL) : Prop where
  perm : cl.ranks.Perm symbols
  len : cl.sizes.length = 256
  frame : ∀ x, x ∉ symbols → cl.sizes.getD x 0 = sizes0.getD x 0
  pos : ∀ s ∈ symbols, 1 ≤ cl.sizes.getD s 0
  fit : cl.maxLen ≤ 12 → LensOk cl.sizes symbols

theorem sizesOk_of_cl (sizes0 symbols : List Nat) (cl : CL) (h : CLOk sizes0 symbols cl) (hl : sizes0.length = 256)
    (hnd : symbols.Nodup) (h256 : ∀ s ∈ symbols, s < 256) : SizesOk sizes0 symbols cl :=
  ⟨h.perm, by rw [h.len, hl], h.frame, fun s hs => (h.range s hs).1,
   fun hm => lensOk_of_cl sizes0 symbols cl h hm hnd h256⟩

theorem slowLimit_spec (symbols freqs sz : List Nat) (ha : AlphaOk freqs symbols) (hn : 2 ≤ symbols.length)
    (hl : sz.length = 256) :
    ∃ cl, slowLimit symbols freqs sz = some cl ∧ SizesOk sz symbols cl := by
  unfold slowLimit
  have hpos : ∀ w ∈ symbols.map (fun s => freqs.getD s 0), 0 < w := by
    intro w hw
    obtain ⟨s, hs, rfl⟩ := List.mem_map.mp hw
    exact ha.pos s hs
  have hsum : 0 < (symbols.map (fun s => freqs.getD s 0)).sum := by
    cases hsy : symbols with
    | nil => rw [hsy] at hn; simp at hn
    | cons s ss =>
      have := ha.pos s (by rw [hsy]; exact List.mem_cons_self)
      simp only [List.map_cons, List.sum_cons]
      omega
  obtain ⟨o, ho, hlen, _, hzp, _, _, _, _⟩ :=
    normalize_valid (symbols.map (fun s => freqs.getD s 0)) 2048
      (by rw [List.length_map]; exact ha.len) ⟨by omega, by omega⟩ hsum
  rw [ho]
  simp only
  rw [List.length_map] at hlen
  have hwpos : ∀ w ∈ o.freqs, 0 < w := by
    intro w hw
    obtain ⟨i, hi, rfl⟩ := List.getElem_of_mem hw
    have h1 := (hzp i (by rw [List.length_map]; omega)).mp
      (hpos _ (by
        rw [List.getD_eq_getElem?_getD, List.getElem?_eq_getElem (by rw [List.length_map]; omega)]
        exact List.getElem_mem _))
    rw [List.getD_eq_getElem?_getD, List.getElem?_eq_getElem hi] at h1
    exact h1
  obtain ⟨cl, hcl, hok⟩ := computeCodeLengths_spec sz _ symbols
    (zip_ranks_syms o.freqs symbols hlen ha.lt) (zip_ranks_pos o.freqs symbols hwpos ha.lt)
    ha.nodup ha.lt hn ha.len hl
  exact ⟨cl, hcl, sizesOk_of_cl sz symbols cl hok hl ha.nodup ha.lt⟩

theorem limitCodeLengths_spec (symbols freqs sizes0 : List Nat) (cl : CL) (ha : AlphaOk freqs symbols)
    (hn : 2 ≤ symbols.length) (hl : sizes0.length = 256) (hcl : CLOk sizes0 symbols cl) :
    ∃ cl2 br, limitCodeLengths symbols freqs cl.sizes cl.ranks = some (cl2, br) ∧ SizesOk sizes0 symbols cl2 := by
  have hok : RanksOk cl.sizes cl.ranks :=
    ⟨hcl.perm.nodup_iff.mpr ha.nodup,
     fun s hs => by rw [hcl.len, hl]; exact ha.lt s (hcl.perm.mem_iff.mp hs)⟩
  obtain ⟨d1, d2, sz, hf, hlen, hframe, hrange, hk⟩ := fastLimit_spec cl.sizes cl.ranks hok
    (by rw [hcl.perm.length_eq]; exact ha.len) hcl.kraft hcl.mono
    (fun s hs => (hcl.range s (hcl.perm.mem_iff.mp hs)).1)
  unfold limitCodeLengths
  rw [hf]
  simp only
  have hszlen : sz.length = 256 := by rw [hlen, hcl.len, hl]
  have hfr2 : ∀ x, x ∉ symbols → sz.getD x 0 = sizes0.getD x 0 := fun x hx => by
    rw [hframe x (fun h => hx (hcl.perm.mem_iff.mp h)), hcl.frame x hx]
  by_cases hd : d2 > 0
  · rw [if_pos hd]
    obtain ⟨cl2, hs, hok2⟩ := slowLimit_spec symbols freqs sz ha hn hszlen
    rw [hs]
    exact ⟨cl2, 5, rfl, hok2.perm, hok2.len, fun x hx => by rw [hok2.frame x hx, hfr2 x hx], hok2.pos, hok2.fit⟩
  · rw [if_neg hd]
    refine ⟨_, _, rfl, hcl.perm, hszlen, hfr2, fun s hs => (hrange s (hcl.perm.mem_iff.mpr hs)).1, fun _ => ?_⟩
    have hd0 : d2 = 0 := by omega
    rw [hd0, Nat.zero_mul, Nat.add_zero] at hk
    have : LensOk sz cl.ranks := lensOk_of_kraftM sz cl.ranks hok.nodup
      (fun s hs => ha.lt s (hcl.perm.mem_iff.mp hs)) hrange hk
    exact this.perm hcl.perm.symm

/-! ### the last resort: 8-bit codes in alphabet order are the canonical codes -/

theorem foldl_set8_getD : ∀ (l : List Nat) (sizes : List Nat) (x : Nat), (∀ s ∈ l, s < sizes.length) →
    (l.foldl (fun sz s => sz.set s 8) sizes).length = sizes.length ∧
    (l.foldl (fun sz s => sz.set s 8) sizes).getD x 0 = if x ∈ l then 8 else sizes.getD x 0 := by
  intro l
  induction l with
  | nil => intro sizes x _; simp
  | cons s ss ih =>
    intro sizes x h
    simp only [List.foldl_cons]
    have := ih (sizes.set s 8) x (fun y hy => by rw [List.length_set]; exact h y (List.mem_cons_of_mem _ hy))
    rw [this.1, this.2, List.length_set]
    refine ⟨rfl, ?_⟩
    by_cases hxs : x ∈ ss
    · simp [hxs]
    · simp only [hxs, if_false, List.mem_cons, or_false]
      by_cases he : x = s
      · subst he; rw [if_pos rfl]; exact getD_set_self _ _ _ (h x List.mem_cons_self)
      · rw [if_neg he, getD_set_ne _ _ _ _ (Ne.symm he)]

theorem idxCodes_spec (sizes : List Nat) : ∀ (l : List Nat) (k : Nat) (codes : List Nat),
    l.Nodup → (∀ s ∈ l, s < codes.length ∧ sizes.getD s 0 = 8) →
    (((List.range' k l.length).zip l).foldl (fun c p => c.set p.2 p.1) codes).length = codes.length ∧
    (∀ x, x ∉ l → (((List.range' k l.length).zip l).foldl (fun c p => c.set p.2 p.1) codes).getD x 0 = codes.getD x 0) ∧
    CodesOk sizes (((List.range' k l.length).zip l).foldl (fun c p => c.set p.2 p.1) codes) l (16 * k) := by
  intro l
  induction l with
  | nil => intro k codes _ _; exact ⟨rfl, fun _ _ => rfl, trivial⟩
  | cons s ss ih =>
    intro k codes hnd h
    have hnd' := List.nodup_cons.mp hnd
    have hs := h s List.mem_cons_self
    simp only [List.length_cons, List.range'_succ, List.zip_cons_cons, List.foldl_cons]
    obtain ⟨h1, h2, h3⟩ := ih (k + 1) (codes.set s k) hnd'.2
      (fun y hy => by rw [List.length_set]; exact h y (List.mem_cons_of_mem _ hy))
    refine ⟨by rw [h1, List.length_set], ?_, ?_, ?_⟩
    · intro x hx
      rw [h2 x (fun hm => hx (List.mem_cons_of_mem _ hm))]
      exact getD_set_ne _ _ _ _ (fun he => hx (he ▸ List.mem_cons_self))
    · rw [h2 s hnd'.1, getD_set_self _ _ _ hs.1, slotW, hs.2]
      norm_num; omega
    · have : 16 * k + slotW sizes s = 16 * (k + 1) := by rw [slotW, hs.2]; norm_num; omega
      rw [this]; exact h3

theorem CodesOk_unique (sizes c1 c2 : List Nat) : ∀ (l : List Nat) (P : Nat),
    CodesOk sizes c1 l P → CodesOk sizes c2 l P → ∀ x ∈ l, c1.getD x 0 = c2.getD x 0 := by
  intro l
  induction l with
  | nil => intro _ _ _ x hx; cases hx
  | cons s ss ih =>
    intro P h1 h2 x hx
    rcases List.mem_cons.mp hx with rfl | hx
    · exact Nat.eq_of_mul_eq_mul_right (slotW_pos sizes x) (h1.1.trans h2.1.symm)
    · exact ih _ h1.2 h2.2 x hx

theorem lastResort_codes (sizes symbols : List Nat) (hs : symbols.Pairwise (· < ·)) (h256 : ∀ s ∈ symbols, s < 256)
    (h8 : ∀ s ∈ symbols, sizes.getD s 0 = 8) (hn : 2 ≤ symbols.length) (hlen : symbols.length ≤ 256) :
    LensOk sizes symbols ∧
    ∃ ord, generateCanonicalCodes sizes (List.replicate 256 0) symbols
      = some (((List.range symbols.length).zip symbols).foldl (fun c p => c.set p.2 p.1) (List.replicate 256 0), ord) := by
  have hnd : symbols.Nodup := List.Pairwise.imp (fun hab => Nat.ne_of_lt hab) hs
  have hk : ∀ (l : List Nat), (∀ s ∈ l, sizes.getD s 0 = 8) → kraft12 sizes l = 16 * l.length := by
    intro l
    induction l with
    | nil => intro _; rfl
    | cons s ss ih =>
      intro h
      rw [kraft12_cons, ih (fun x hx => h x (List.mem_cons_of_mem _ hx)), slotW, h s List.mem_cons_self, List.length_cons]
      norm_num; omega
  have hlo : LensOk sizes symbols :=
    ⟨hnd, h256, fun s hs' => by rw [h8 s hs']; omega, by rw [hk symbols h8]; omega⟩
  refine ⟨hlo, ?_⟩
  obtain ⟨codes, hg, hcl, hco, hz⟩ := genCodes_ok sizes symbols hlo hn
  -- with equal lengths the canonical order is the alphabet order
  have hord : canonOrder sizes symbols = symbols := by
    apply sorted_ext
    · refine List.Pairwise.imp_of_mem ?_ (canonOrder_pairwise sizes symbols)
      intro a b ha hb hab
      have h1 := h8 a ((mem_canonOrder _ _ _).mp ha).2.1
      have h2 := h8 b ((mem_canonOrder _ _ _).mp hb).2.1
      omega
    · exact hs
    · exact fun x => (canonOrder_perm sizes symbols hnd h256 hlo.range).mem_iff
  rw [hord] at hco hg
  have hidx := idxCodes_spec sizes symbols 0 (List.replicate 256 0) hnd
    (fun s hs' => ⟨by rw [List.length_replicate]; exact h256 s hs', h8 s hs'⟩)
  rw [← List.range_eq_range'] at hidx
  obtain ⟨i1, i2, i3⟩ := hidx
  refine ⟨symbols, ?_⟩
  rw [hg]
  congr 2
  apply ext_getD
  · rw [hcl, i1, List.length_replicate]
  · intro x _
    by_cases hx : x ∈ symbols
    · exact CodesOk_unique sizes _ _ symbols 0 hco i3 x hx
    · rw [hz x hx, i2 x hx, getD_replicate_zero]

/-! ### `updateFrequencies` -/

/-- **what `updateFrequencies` guarantees**, for the alphabet `a` of the histogram -/
structure UFOk (a : List Nat) (u : UF) : Prop where
  count : u.count = a.length
  slen : u.sizes.length = 256
  lens : LensOk u.sizes a
  bits : u.bits = encodeAlphabetBits a ++ encodeSizes u.sizes a 2
  codes : 2 ≤ a.length → ∃ codes ord, generateCanonicalCodes u.sizes (List.replicate 256 0) a = some (codes, ord) ∧
    u.codes = packCodes u.sizes a codes

theorem codesFor_spec (symbols freqs sizes0 : List Nat) (cl : CL) (br : Nat) (ha : AlphaOk freqs symbols)
    (hn : 2 ≤ symbols.length) (h : SizesOk sizes0 symbols cl) :
    ∃ u, codesFor symbols cl br = some u ∧ UFOk symbols u := by
  unfold codesFor
  by_cases hm : cl.maxLen > 12
  · rw [if_pos hm]
    have hf := fun x => foldl_set8_getD symbols cl.sizes x (fun s hs => by rw [h.len]; exact ha.lt s hs)
    have h8 : ∀ s ∈ symbols, (symbols.foldl (fun sz s => sz.set s 8) cl.sizes).getD s 0 = 8 := by
      intro s hs; rw [(hf s).2, if_pos hs]
    obtain ⟨hlo, ord, hg⟩ := lastResort_codes _ symbols ha.sorted ha.lt h8 hn ha.len
    exact ⟨_, rfl, rfl, by simp only [finishUF]; rw [(hf 0).1, h.len], hlo, rfl, fun _ => ⟨_, ord, hg, rfl⟩⟩
  · rw [if_neg hm]
    have hlo := h.fit (by omega)
    obtain ⟨codes, hg, _, _, _⟩ := genCodes_ok cl.sizes cl.ranks (hlo.perm h.perm) (by rw [h.perm.length_eq]; exact hn)
    rw [hg]
    refine ⟨_, rfl, rfl, h.len, hlo, rfl, fun _ => ⟨codes, canonOrder cl.sizes cl.ranks, ?_, rfl⟩⟩
    rw [← hg]
    exact (genCodes_congr cl.sizes cl.sizes cl.ranks symbols (fun x => h.perm.mem_iff) h.perm.length_eq
      (by rw [h.perm.length_eq]; exact hn) (fun _ _ => rfl)).symm

/-- **C12_huf_lengths_kraft / canonical codes, engine.**  For every histogram of 256 counts. -/
theorem updateFrequencies_spec (freqs : List Nat) (hl : freqs.length = 256) :
    ∃ u, updateFrequencies freqs = some u ∧ UFOk (support freqs) u := by
  have ha := support_alpha freqs hl
  unfold updateFrequencies
  rw [if_neg (by omega)]
  by_cases h0 : (support freqs).length = 0
  · rw [if_pos h0]
    have hnil : support freqs = [] := List.length_eq_zero_iff.mp h0
    refine ⟨_, rfl, by rw [hnil]; rfl, List.length_replicate .., ?_, by rw [hnil]; simp [encodeSizes], fun h => by omega⟩
    rw [hnil]
    exact ⟨List.nodup_nil, fun _ h => (by cases h), fun _ h => (by cases h), by unfold kraft12; exact Nat.zero_le _⟩
  · rw [if_neg h0]
    by_cases h1 : (support freqs).length = 1
    · rw [if_pos h1]
      obtain ⟨s, hs⟩ := List.length_eq_one_iff.mp h1
      have hs256 : s < 256 := ha.lt s (by rw [hs]; exact List.mem_singleton_self s)
      rw [hs]
      simp only [List.headD_cons]
      refine ⟨_, rfl, rfl, by simp only [finishUF]; rw [List.length_set, List.length_replicate], ?_, rfl,
        fun h => by simp at h⟩
      have hsz : ((List.replicate 256 0).set s 1).getD s 0 = 1 :=
        getD_set_self _ _ _ (by rw [List.length_replicate]; exact hs256)
      refine ⟨List.nodup_singleton s, fun x hx => by rw [List.mem_singleton.mp hx]; exact hs256,
        fun x hx => ?_, ?_⟩
      · rw [List.mem_singleton.mp hx]
        simp only [finishUF]
        rw [hsz]; omega
      · simp only [finishUF, kraft12, List.map_cons, List.map_nil, List.sum_cons, List.sum_nil, slotW]
        rw [hsz]; decide
    · rw [if_neg h1]
      have hn : 2 ≤ (support freqs).length := by omega
      obtain ⟨cl, hcl, hok⟩ := computeCodeLengths_spec (List.replicate 256 0) _ (support freqs)
        (ranks_syms (fun s => freqs.getD s 0) (support freqs) ha.lt)
        (fun r hr => by
          obtain ⟨s, hs, rfl⟩ := List.mem_map.mp hr
          rw [(rank_fields (freqs.getD s 0) s (ha.lt s hs)).1]
          exact ha.pos s hs)
        ha.nodup ha.lt hn ha.len (List.length_replicate ..)
      rw [hcl]
      simp only
      by_cases hm : cl.maxLen > 12
      · rw [if_pos hm]
        obtain ⟨cl2, br, hl2, hok2⟩ := limitCodeLengths_spec (support freqs) freqs (List.replicate 256 0) cl ha hn
          (List.length_replicate ..) hok
        rw [hl2]
        exact codesFor_spec (support freqs) freqs _ cl2 br ha hn hok2
      · rw [if_neg hm]
        exact codesFor_spec (support freqs) freqs _ cl 2 ha hn
          (sizesOk_of_cl _ _ cl hok (List.length_replicate ..) ha.nodup ha.lt)

end Kanzi.Huffman
