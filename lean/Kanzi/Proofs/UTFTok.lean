/-
Proofs for the `utf` slice, part 2: the token view of a block.  Both loops of Forward walk the same
sequence of packed code points; `Toks src endI i ts iEnd` says that starting at `i` the walk visits the
tokens `ts` (pairs `(size, packed value)`), each accepted by the checks of the counting loop, and stops at
`iEnd` (the first position `≥ endI`).  The counting loop succeeds only on such a walk and its result
is a list fold (`cstep`); facts about that fold: `aliasMap` holds the multiplicities, `symb` the distinct
values without repetition.
-/
import Kanzi.Proofs.UTFPack

namespace Kanzi.UTF
open Kanzi.RLT

/-! ## array reads -/

theorem getElem?_eq_getD (a : Array Nat) (i : Nat) (h : i < a.size) : a[i]? = some (a.getD i 0) := by
  simp [Array.getD, h]

theorem getD_lt_of_all (a : Array Nat) (hb : ∀ x ∈ a.toList, x < 256) (i : Nat) : a.getD i 0 < 256 := by
  by_cases h : i < a.size
  · have : a.getD i 0 = a[i] := by simp [Array.getD, h]
    rw [this]; exact hb _ (by simp)
  · simp [Array.getD, h]

theorem getD_modify (a : Array Nat) (i j : Nat) (f : Nat → Nat) :
    (a.modify i f).getD j 0 = if i = j ∧ i < a.size then f (a.getD i 0) else a.getD j 0 := by
  rw [Array.getD_eq_getD_getElem?, Array.getD_eq_getD_getElem?, Array.getD_eq_getD_getElem?, Array.getElem?_modify]
  by_cases hij : i = j
  · subst hij
    by_cases hi : i < a.size
    · simp [hi]
    · simp [hi]
  · simp [hij]

theorem getD_setIfInBounds (a : Array Nat) (i j x : Nat) :
    (a.setIfInBounds i x).getD j 0 = if i = j ∧ i < a.size then x else a.getD j 0 := by
  rw [Array.getD_eq_getD_getElem?, Array.getD_eq_getD_getElem?, Array.getElem?_setIfInBounds]
  by_cases hij : i = j
  · subst hij
    by_cases hi : i < a.size
    · simp [hi]
    · simp [hi]
  · simp [hij]

theorem getD_replicate_zero (n i : Nat) : (Array.replicate n 0).getD i 0 = 0 := by
  rw [Array.getD_eq_getD_getElem?, Array.getElem?_replicate]; split <;> rfl

/-! ## tokens -/

/-- `packUTF` at position `i` (when four bytes are available) -/
def tokAt (src : Array Nat) (i : Nat) : Nat × Nat :=
  packVal (src.getD i 0) (src.getD (i + 1) 0) (src.getD (i + 2) 0) (src.getD (i + 3) 0)

theorem pack_eq (src : Array Nat) (i : Nat) (h : i + 4 ≤ src.size) : pack src i = .ok (tokAt src i) := by
  unfold pack
  rw [getElem?_eq_getD src i (by omega)]
  have := utfSize_le (src.getD i 0)
  simp only []
  rw [if_pos (by omega)]
  rfl

theorem tokAt_fst (src : Array Nat) (i : Nat) : (tokAt src i).1 = utfSize (src.getD i 0) := packVal_fst _ _ _ _

theorem tokAt_snd_lt (src : Array Nat) (hb : ∀ x ∈ src.toList, x < 256) (i : Nat) : (tokAt src i).2 < 4194304 :=
  packVal_lt _ _ _ _ (getD_lt_of_all src hb _)

/-- the checks of the counting loop are `seqValid` -/
theorem seqOk_iff (src : Array Nat) (hb : ∀ x ∈ src.toList, x < 256) (i : Nat) :
    seqOk src i (tokAt src i).1 = true ↔
      seqValid (src.getD i 0) (src.getD (i + 1) 0) (src.getD (i + 2) 0) (src.getD (i + 3) 0) := by
  have h1 := getD_lt_of_all src hb (i + 1)
  have h2 := getD_lt_of_all src hb (i + 2)
  have h3 := getD_lt_of_all src hb (i + 3)
  rw [tokAt_fst]
  unfold seqOk seqValid
  simp only [Bool.and_eq_true, Bool.or_eq_true, decide_eq_true_eq, beq_iff_eq, ne_eq]
  rw [andC0_iff _ h1, andC0_iff _ h2, andC0C0_iff _ _ h2 h3]
  have := utfSize_le (src.getD i 0)
  constructor
  · rintro ⟨⟨⟨a, b⟩, c⟩, d⟩
    refine ⟨a, fun h => ?_, fun h => ?_, fun h => ?_⟩
    · rcases b with b | b
      · omega
      · exact b
    · rcases c with c | c
      · rcases d with d | d
        · omega
        · exact d.1
      · exact c
    · rcases d with d | d
      · omega
      · exact d.2
  · rintro ⟨a, b, c, d⟩
    refine ⟨⟨⟨a, ?_⟩, ?_⟩, ?_⟩
    · by_cases h : utfSize (src.getD i 0) < 3
      · exact Or.inl h
      · exact Or.inr (b (by omega))
    · by_cases h : utfSize (src.getD i 0) = 3
      · exact Or.inr (c (by omega))
      · exact Or.inl h
    · by_cases h : utfSize (src.getD i 0) = 4
      · exact Or.inr ⟨c (by omega), d h⟩
      · exact Or.inl h

theorem unpack1_tokAt (src : Array Nat) (hb : ∀ x ∈ src.toList, x < 256) (i : Nat)
    (hok : seqOk src i (tokAt src i).1 = true) :
    unpack1 (tokAt src i).2 =
      List.take (tokAt src i).1 [src.getD i 0, src.getD (i + 1) 0, src.getD (i + 2) 0, src.getD (i + 3) 0] := by
  have hv := (seqOk_iff src hb i).mp hok
  unfold tokAt
  exact unpack1_packVal_valid _ _ _ _ (getD_lt_of_all src hb i) (getD_lt_of_all src hb (i + 1)) hv

/-- the walk of the two Forward loops from `i`: tokens `ts`, final position `iEnd` -/
inductive Toks (src : Array Nat) (endI : Nat) : Nat → List (Nat × Nat) → Nat → Prop
  | nil (i : Nat) : ¬ i < endI → Toks src endI i [] i
  | cons (i : Nat) (ts : List (Nat × Nat)) (iEnd : Nat) : i < endI → seqOk src i (tokAt src i).1 = true →
      Toks src endI (i + (tokAt src i).1) ts iEnd → Toks src endI i (tokAt src i :: ts) iEnd

theorem seqOk_pos (src : Array Nat) (i s : Nat) (h : seqOk src i s = true) : 0 < s := by
  unfold seqOk at h
  simp only [Bool.and_eq_true, decide_eq_true_eq, ne_eq] at h
  omega

theorem Toks.bounds {src : Array Nat} {endI i iEnd : Nat} {ts : List (Nat × Nat)} (h : Toks src endI i ts iEnd) :
    i ≤ iEnd ∧ endI ≤ iEnd ∧ iEnd ≤ max i (endI + 3) := by
  induction h with
  | nil i hi => omega
  | cons i ts iEnd hi hok _ ih =>
    have := seqOk_pos _ _ _ hok
    have : (tokAt src i).1 ≤ 4 := by rw [tokAt_fst]; exact utfSize_le _
    omega

/-- the bytes of the tokens are the bytes of the block between `i` and `iEnd`, and `unpack1` restores them -/
theorem Toks.bytes {src : Array Nat} {endI i iEnd : Nat} {ts : List (Nat × Nat)} (h : Toks src endI i ts iEnd)
    (hb : ∀ x ∈ src.toList, x < 256) (hsz : endI + 4 ≤ src.size) :
    ts.flatMap (fun t => unpack1 t.2) = (src.toList.drop i).take (iEnd - i) := by
  induction h with
  | nil i hi => simp
  | cons i ts iEnd hi hok hrest ih =>
    have hpos := seqOk_pos _ _ _ hok
    have hle : (tokAt src i).1 ≤ 4 := by rw [tokAt_fst]; exact utfSize_le _
    have hbd := hrest.bounds
    rw [List.flatMap_cons, ih]
    rw [unpack1_tokAt src hb i hok]
    -- the four bytes at i
    have e0 : src.toList.drop i = src.getD i 0 :: src.getD (i + 1) 0 :: src.getD (i + 2) 0 :: src.getD (i + 3) 0 ::
        src.toList.drop (i + 4) := by
      have g : ∀ k (hk : k < src.toList.length), src.toList[k] = src.getD k 0 := by
        intro k hk; simp at hk; simp [Array.getD, hk]
      rw [List.drop_eq_getElem_cons (by simp; omega), List.drop_eq_getElem_cons (by simp; omega),
        List.drop_eq_getElem_cons (by simp; omega), List.drop_eq_getElem_cons (by simp; omega),
        g i, g (i + 1), g (i + 2), g (i + 3)]
    have e1 : src.toList.drop (i + (tokAt src i).1) = (src.toList.drop i).drop (tokAt src i).1 := by
      rw [List.drop_drop]
    rw [e1, e0]
    generalize (tokAt src i).1 = s at *
    have : iEnd - i = s + (iEnd - (i + s)) := by omega
    rw [this]
    rcases (by omega : s = 1 ∨ s = 2 ∨ s = 3 ∨ s = 4) with rfl | rfl | rfl | rfl <;> simp [List.take_add]

/-- every token value indexes `aliasMap`, is at least one byte long, and unpacks to as many bytes -/
theorem Toks.all {src : Array Nat} {endI i iEnd : Nat} {ts : List (Nat × Nat)} (h : Toks src endI i ts iEnd)
    (hb : ∀ x ∈ src.toList, x < 256) :
    ∀ t ∈ ts, t.2 < 4194304 ∧ 0 < t.1 ∧ (unpack1 t.2).length = t.1 := by
  induction h with
  | nil i hi => simp
  | cons i ts iEnd hi hok hrest ih =>
    intro t ht
    rcases List.mem_cons.mp ht with h | ht
    · rw [h]
      refine ⟨tokAt_snd_lt src hb i, seqOk_pos _ _ _ hok, ?_⟩
      rw [unpack1_tokAt src hb i hok, List.length_take]
      have hle : (tokAt src i).1 ≤ 4 := by rw [tokAt_fst]; exact utfSize_le _
      simp; omega
    · exact ih t ht

end Kanzi.UTF
