/-
C13 (small transforms) and C01_sequence — property theorems only; proofs in `Kanzi/Proofs/TrSmall.lean`.
The models (`Kanzi/Model/TrSmall.lean`) mirror transform/NullTransform.go, ZRLT.go, SBRT.go,
Sequence.go and the skip-flag expressions of io/CompressedStream.go; they are tied to /repo by the
`trsmall` correspondence stream.

Conventions: a block is a `List Nat` of byte values (hypothesis `∀ x ∈ b, x < 256`); the second
argument of a `…Forward` / `…Inverse` model is `len(dst)` of the Go call; `.ok t` is `dst[0:written]`
with a nil error.  "Input left untouched" is not a theorem here (values are immutable); it is an
oracle of the stream on the real code.
-/
import Kanzi.Model.TrSmall
import Kanzi.Proofs.TrSmall

namespace Kanzi.C13
open Kanzi.TrSmall

/-- C13_null: into any destination at least as large as advertised by `MaxEncodedLen`, Forward
succeeds with the block itself (so `|output| = MaxEncodedLen`), and Inverse into any destination
that can hold the block returns it. -/
theorem C13_null (b : List Nat) (dstLen n : Nat)
    (hdst : nullMaxEncodedLen b.length ≤ dstLen) (hn : b.length ≤ n) :
    nullForward b dstLen = .ok b ∧ b.length ≤ nullMaxEncodedLen b.length ∧
      nullInverse b n = .ok b :=
  ⟨(null_roundtrip b dstLen n hdst hn).1, Nat.le_refl _, (null_roundtrip b dstLen n hdst hn).2⟩

/-- C13_zrlt: whenever ZRLT.Forward accepts a block (it declines exactly when its output would not
fit in `len(src)` bytes, conservatively: every zero run and every escaped byte must end strictly /
at most at `len(src)`), the output is at most `MaxEncodedLen(len) = len` bytes long and
ZRLT.Inverse into ANY destination of at least the original size returns the original block.
`b.length + 1 < 2^32`: Go computes the run-length width with `Log2NoCheck(uint32(runLength))`;
blocks are at most 2^30 bytes (stream constructor), so this is no restriction in the pipeline. -/
theorem C13_zrlt (b t : List Nat) (dstLen : Nat)
    (hb : ∀ x ∈ b, x < 256) (hlen : b.length + 1 < 2 ^ 32)
    (hdst : zrltMaxEncodedLen b.length ≤ dstLen)
    (h : zrltForward b dstLen = .ok t) :
    t.length ≤ zrltMaxEncodedLen b.length ∧ ∀ n, b.length ≤ n → zrltInverse t n = .ok b :=
  zrlt_roundtrip b t dstLen hb hlen hdst h

/-- the encoded block consists of byte values -/
theorem C13_zrlt_bytes (b t : List Nat) (dstLen : Nat) (hb : ∀ x ∈ b, x < 256)
    (h : zrltForward b dstLen = .ok t) : ∀ y ∈ t, y < 256 :=
  zrltForward_bytes b t dstLen hb h

/-- side condition of the ZRLT model: Go evaluates `dstIdx >= dstEnd-uint(log2)` in unsigned
arithmetic; the subtraction never wraps because a run inside a block of `n` bytes has at most `n`
zeros. -/
theorem C13_zrlt_no_wrap (run n : Nat) (h : run ≤ n) : zrltLog2 (run + 1) ≤ n :=
  zrlt_log2_le run n h

/-- the hypotheses of `C13_zrlt` are satisfiable (accepted, shorter) and Forward can decline -/
example : zrltForward [0, 0, 0, 5, 0xFF] 5 = .ok [0, 0, 6, 0xFF, 1] := rfl
example : zrltInverse [0, 0, 6, 0xFF, 1] 5 = .ok [0, 0, 0, 5, 0xFF] := rfl
example : zrltForward [0xFE] 1 = .error "declined" := rfl

/-- C13_sbrt: for every mode (MTF = 1, RANK = 2, TIMESTAMP = 3 — in fact for any rank-update rule,
`mode` is not restricted), Forward into a destination of at least `MaxEncodedLen(len) = len + 33`
bytes always succeeds, preserves the length, and Inverse into any destination that can hold the
block returns the original. -/
theorem C13_sbrt (mode : Nat) (b : List Nat) (dstLen : Nat)
    (hb : ∀ x ∈ b, x < 256) (hdst : sbrtMaxEncodedLen b.length ≤ dstLen) :
    ∃ t, sbrtForward mode b dstLen = .ok t ∧ t.length = b.length ∧
      t.length ≤ sbrtMaxEncodedLen b.length ∧
      ∀ n, b.length ≤ n → sbrtInverse mode t n = .ok b := by
  obtain ⟨t, h1, h2, h3⟩ := sbrt_roundtrip mode b dstLen hb hdst
  exact ⟨t, h1, h2, by unfold sbrtMaxEncodedLen; omega, h3⟩

set_option maxRecDepth 20000 in
example : sbrtForward 1 [3, 3, 1, 3] 37 = .ok [3, 0, 2, 1] := rfl
set_option maxRecDepth 20000 in
example : sbrtForward 2 [3, 3, 1, 3] 37 = .ok [3, 0, 2, 1] := rfl
set_option maxRecDepth 20000 in
example : sbrtForward 3 [3, 1, 3, 1] 37 = .ok [3, 2, 1, 1] := rfl

/-- C13_sequence (= C01_sequence): for 1 to 8 stages (0 is covered too; the Go constructor
rejects 0 and more than 8), each of which either declines or succeeds with an output its inverse
maps back (`Stage.GoodOn D`: relative to a class `D` of blocks preserved by the stages, and a
non-empty block is never turned into an empty one), and for EVERY pattern of declining stages: the
inverse sequence driven by the skip flags computed by the forward sequence returns the input.
This includes the case where all stages decline (flags 0xFF, `C13_sequence_all_declined`). -/
theorem C13_sequence (D : List Nat → Prop) (stages : List Stage) (x : List Nat)
    (hn : stages.length ≤ 8) (hst : ∀ st ∈ stages, st.GoodOn D) (hD : D x) :
    seqInverse stages (seqForward stages x).2 (seqForward stages x).1 = .ok x :=
  seq_roundtrip D stages x hn hst hD

/-- the plain form of the hypothesis (no block class) -/
theorem C13_sequence_plain (stages : List Stage) (x : List Nat) (hn : stages.length ≤ 8)
    (hrt : ∀ st ∈ stages, ∀ a b, st.fwd a = .ok b → st.inv b = .ok a)
    (hne : ∀ st ∈ stages, ∀ a b, st.fwd a = .ok b → a ≠ [] → b ≠ []) :
    seqInverse stages (seqForward stages x).2 (seqForward stages x).1 = .ok x :=
  seq_roundtrip (fun _ => True) stages x hn
    (fun st hs a b _ hf => ⟨trivial, hne st hs a b hf, hrt st hs a b hf⟩) trivial

/-- all stages declining ⇒ flags 0xFF and output = input -/
theorem C13_sequence_all_declined (stages : List Stage) (x : List Nat)
    (h : ∀ st ∈ stages, ∀ y, ∃ e, st.fwd y = .error e) :
    seqForward stages x = (x, 0xFF) :=
  seq_all_declined stages x h

/-- Mode-byte lemma: the flags produced for `n ≤ 8` stages are a byte whose low `8-n` bits are
all 1, and the block header round-trips them in both layouts: `n ≤ 4` — merged into the low nibble
of the mode byte and recovered as `(mode<<4)|0x0F`; `n > 4` — bit 0x10 of the mode byte plus an extra
byte.  `mode0` is the mode byte before the flags are merged (non-copy block: only the two block-size
bits 0x60 may be set), and those two bits are read back unchanged. -/
theorem C13_sequence_mode_byte (stages : List Stage) (x : List Nat) (mode0 : Nat)
    (hn : stages.length ≤ 8) (hm : mode0 < 256) (hm0 : mode0 &&& 0x9F = 0) :
    let flags := (seqForward stages x).2
    let em := encodeMode mode0 flags stages.length
    flags < 256 ∧ flags % 2 ^ (8 - stages.length) = 2 ^ (8 - stages.length) - 1 ∧
    decodeFlags em.1 em.2 = flags ∧ (em.1 >>> 5) &&& 3 = mode0 / 32 := by
  intro flags em
  obtain ⟨h1, h2⟩ := seq_flags_shape stages x hn
  have hlow : stages.length ≤ 4 → flags % 16 = 15 :=
    fun h4 => flags_low_nibble flags h1 stages.length h4 h2
  obtain ⟨h3, h4⟩ := mode_byte_roundtrip mode0 flags stages.length hm hm0 h1 hlow
  exact ⟨h1, h2, h3, h4⟩

/-- `MaxEncodedLen` composition: when every stage respects its own (monotone) `MaxEncodedLen`, the
output of the sequence fits in `ByteTransformSequence.MaxEncodedLen(len)`; in particular the
`len(dst) < length` branch after the stage loop of `Forward` (which would publish flags 0xFF over a
destination that does not hold the input) is dead. -/
theorem C13_sequence_len (stages : List Stage) (x : List Nat)
    (hm : ∀ st ∈ stages, ∀ a b, a ≤ b → st.maxLen a ≤ st.maxLen b)
    (hb : ∀ st ∈ stages, ∀ a b, st.fwd a = .ok b → b.length ≤ st.maxLen a.length) :
    (seqForward stages x).1.length ≤ seqMaxEncodedLen stages x.length :=
  seq_forward_len_le stages x hm hb

/-- Instance: any sequence of up to 8 stages drawn from NullTransform, ZRLT and SBRT (any mode),
run with the buffer sizes the Go sequence uses (`req ≥ MaxEncodedLen` of the sequence for every
forward call, `n ≥ len` for every inverse call), round-trips every block of bytes.  This is the
configuration exercised by the `qf` / `qi` operations of the `trsmall` stream, and shows that the
stage hypothesis of `C13_sequence` is satisfiable by the modelled transforms. -/
theorem C13_sequence_small (stages : List Stage) (x : List Nat) (req n : Nat)
    (hn : stages.length ≤ 8) (hst : ∀ st ∈ stages, IsSmallStage req n st)
    (hreq : seqMaxEncodedLen stages x.length ≤ req) (hdst : x.length ≤ n)
    (hb : ∀ b ∈ x, b < 256) (hlen : x.length + 1 < 2 ^ 32) :
    seqInverse stages (seqForward stages x).2 (seqForward stages x).1 = .ok x :=
  seq_small_roundtrip stages x req n hn hst hreq hdst hb hlen

/-- C13_sequence_dst: the same through the destination handling of `ByteTransformSequence.Inverse`
(model `seqInverseDst`, the function the `qi` operations of the `trsmall` stream run): the stage
inverses write into intermediate buffers of `seqInvBufLen stages d ≥ d` bytes and the result is copied
into the caller's `d`-byte destination only if it fits — for every destination `d ≥ len(x)` the
block comes back. -/
theorem C13_sequence_dst (stages : List Stage) (x : List Nat) (req d : Nat)
    (hn : stages.length ≤ 8) (hst : ∀ st ∈ stages, IsSmallStage req (seqInvBufLen stages d) st)
    (hreq : seqMaxEncodedLen stages x.length ≤ req) (hdst : x.length ≤ d)
    (hb : ∀ b ∈ x, b < 256) (hlen : x.length + 1 < 2 ^ 32) :
    seqInverseDst stages (seqForward stages x).2 (seqForward stages x).1 d = .ok x := by
  have hR : x.length ≤ seqInvBufLen stages d := by unfold seqInvBufLen; omega
  have h := seq_small_roundtrip stages x req (seqInvBufLen stages d) hn hst hreq hR hb hlen
  unfold seqInverseDst
  rw [h]
  simp only
  split
  · omega
  · rfl

set_option maxRecDepth 20000 in
example : seqForward [zrltStage 40 7, sbrtStage 1 40 7] [0, 0, 0, 0, 0, 5, 5] = ([1, 1, 6, 0], 0x3F) := rfl
set_option maxRecDepth 20000 in
example : seqForward [zrltStage 36 3, sbrtStage 2 36 3] [9, 8, 0xFF] = ([9, 9, 255], 0xBF) := rfl

end Kanzi.C13
